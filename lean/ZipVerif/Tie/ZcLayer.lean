import ZipVerif.Gen.ZipCryptoLayer
import ZipVerif.Tie.Layers
import ZipVerif.Tie.ZipCrypto
import ZipVerif.Lemmas.Layers
import ZipVerif.Lemmas.ZipCrypto
/-
Tie obligations for the ZipCrypto reader / writer layers (zipcrypto.rs; tier T6, LAYER mode of rs2lean).
`Gen.ZipCryptoReaderValid.read`, `Gen.ZipCryptoReader.validate`, `Gen.ZipCryptoWriter.{write, finish}` are
regenerated from the source on this run; they call the seven translated `ZipCryptoKeys` functions
(`Tie/ZipCrypto.lean`).  The theorems equate them with
  * `Model.Layers.zipCryptoLayer` / `zcValidate` at `dec := Model.ZipCrypto.decryptByte` (C09; the C09 theorems
    hold for every `dec`), for every inner reader;
  * `Model.ZipCrypto.Reader.{validate, read}` over an in-memory input and `Writer.{write, finish}` (C15).
Hypotheses: buffer lengths and inner deliveries below 2^64 (`Nat` vs `usize`).
-/

namespace ZipVerif.Tie.ZcLayer
open ZipVerif ZipVerif.Model.Layers ZipVerif.Model.ZipCrypto ZipVerif.Tie.Layers ZipVerif.Tie.ZipCrypto

variable {σ : Type}

/-- A `for byte in xs.iter_mut()` loop whose body applies a per-byte step `f` to one component
(`get`/`set`) of the loop-carried state: bytes and component are `mapBytes` / `mapKey` of `f`. -/
theorem iterMut_lens {τ κ : Type} (get : τ → κ) (set : τ → κ → τ) (f : κ → UInt8 → UInt8 × κ)
    (F : τ → UInt8 → Option (UInt8 × τ))
    (hF : ∀ st b, F st b = some ((f (get st) b).1, set st (f (get st) b).2))
    (hgs : ∀ st k, get (set st k) = k) (hss : ∀ st k k', set (set st k) k' = set st k')
    (hsg : ∀ st, set st (get st) = st) (xs : Bytes) (st : τ) :
    Rs.L.iterMut xs st F = some (mapBytes f (get st) xs, set st (mapKey f (get st) xs)) := by
  induction xs generalizing st with
  | nil => simp [Rs.L.iterMut, hsg]
  | cons b bs ih =>
    rw [Rs.L.iterMut, hF]
    simp only [ih, hgs, hss, mapBytes, mapKey_cons]

/-- `&buf[..count]` after an inner read that delivered `bs` -/
theorem sliceTo_filled (bs buf : Bytes) (hs : bs.length < 2 ^ 64) :
    Rs.sliceTo ((bs ++ buf.drop bs.length).take buf.length) (UInt64.ofNat bs.length) =
      if bs.length ≤ buf.length then some bs else none := by
  unfold Rs.sliceTo
  rw [ofNat_toNat_small hs, filled_length]
  by_cases h : bs.length ≤ buf.length
  · simp only [h, if_true]
    rw [filled_take bs buf h]
  · simp [h]

/-- the model's step result as a value of the generated structure -/
def zcLift (m : ReadRes × σ × Keys) : ReadRes × Gen.ZipCryptoReaderValid σ :=
  (m.1, ⟨⟨m.2.1, ofModel m.2.2⟩⟩)

/-- **`ZipCryptoReaderValid::read` is the model's `zipCryptoLayer` step** (exactly the `count` bytes
the inner reader returned are decrypted, the keys advance by exactly those bytes; an inner error leaves
the keys alone). -/
theorem tie_zipcrypto_read (inner : Src σ) (self : Gen.ZipCryptoReaderValid σ) (buf : Bytes)
    (hin : Small inner) :
    view (@Gen.ZipCryptoReaderValid.read σ (readOf inner) self buf) =
      zcLift ((zipCryptoLayer decryptByte inner).rd (self.reader.file, toModel self.reader.keys) buf.length) := by
  unfold Gen.ZipCryptoReaderValid.read zipCryptoLayer statefulMapLayer view zcLift
  simp only [read_readOf, Id.run, Rs.L.id_pure]
  rcases hr : inner.rd self.reader.file buf.length with ⟨r, s'⟩
  cases r with
  | err e => simp [viewRead, Rs.IoRes.fail, ofModel_toModel]
  | panic => simp [viewRead, Rs.IoRes.fail, ofModel_toModel]
  | ok bs =>
    have hs := hin _ _ _ _ hr
    simp only []
    rw [sliceTo_filled bs buf hs]
    by_cases hl : bs.length ≤ buf.length
    · simp only [hl, if_true]
      rw [iterMut_lens (fun st : Gen.ZipCryptoReaderValid σ => toModel st.reader.keys)
        (fun st k => ⟨⟨st.reader.file, ofModel k⟩⟩) decryptByte _
        (by intro st b; simp only [tie_decrypt_byte]; rfl) (by intros; rfl) (by intros; rfl)
        (by intro st; simp only [ofModel_toModel])]
      simp [viewRead, ofNat_toNat_small hs, Rs.L.splice]
    · simp [hl, viewRead, ofModel_toModel]

/-! ### `ZipCryptoReader::validate` -/

/-- the validator of the generated code as the model's -/
def valOf : Gen.ZipCryptoValidator → Validator
  | .PkzipCrc32 c => .pkzipCrc32 c
  | .InfoZipMsdosTime t => .infoZipMsdosTime t

/-- the generated outcome of `validate` in the model's vocabulary -/
def openOf : Rs.IoRes (Option (Gen.ZipCryptoReaderValid σ)) → ZcOpen σ Keys
  | .ok (some v) => .valid (v.reader.file, toModel v.reader.keys)
  | .ok none => .wrongPassword
  | .err e => .err e
  | .panic => .panic

theorem idx_eq (bs : Bytes) (i : Nat) (h : i < 2 ^ 64) : Rs.L.idx bs (UInt64.ofNat i) = bs[i]? := by
  unfold Rs.L.idx; rw [ofNat_toNat_small h]

/-- **`ZipCryptoReader::validate` is the model's `zcValidate`**: 12 header bytes by `read_exact`,
decrypted in order, ONE byte (index 11) compared with the high byte of the CRC resp. of the DOS time;
the reader continues with the keys advanced by exactly the header. -/
theorem tie_zipcrypto_validate (inner : Src σ) (self : Gen.ZipCryptoReader σ) (v : Gen.ZipCryptoValidator) :
    openOf (@Gen.ZipCryptoReader.validate σ (readOf inner) self v) =
      zcValidate decryptByte inner self.file (toModel self.keys) (valOf v).byte := by
  unfold Gen.ZipCryptoReader.validate zcValidate
  simp only [read_exact_readOf, Id.run, Rs.L.id_pure]
  have h12 : (Rs.vecZeros 12).length = 12 := by decide
  rw [h12]
  rcases hr : readExact inner self.file 12 with ⟨r, s'⟩
  cases r with
  | err e => simp [openOf, Rs.IoRes.fail]
  | panic => simp [openOf, Rs.IoRes.fail]
  | ok hdr =>
    have hlen : hdr.length = 12 := readExactAux_len inner 12 self.file 12 hdr s' hr
    simp only []
    rw [iterMut_lens (fun st : Gen.ZipCryptoReader σ => toModel st.keys)
      (fun st k => ⟨st.file, ofModel k⟩) decryptByte _
      (by intro st b; simp only [tie_decrypt_byte]; rfl) (by intros; rfl) (by intros; rfl)
      (by intro st; simp only [ofModel_toModel])]
    have hl2 : (mapBytes decryptByte (toModel self.keys) hdr).length = 12 := by
      rw [mapBytes_length, hlen]
    have hi : Rs.L.idx (mapBytes decryptByte (toModel self.keys) hdr) 11 =
        (mapBytes decryptByte (toModel self.keys) hdr)[11]? := idx_eq _ 11 (by decide)
    obtain ⟨x, hx⟩ : ∃ x, (mapBytes decryptByte (toModel self.keys) hdr)[11]? = some x := by
      rw [List.getElem?_eq_getElem (by omega)]; exact ⟨_, rfl⟩
    cases v with
    | PkzipCrc32 c =>
      simp only [hi, hx, Rs.Arith.shr, valOf, Validator.byte]
      have h24 : (24 : Nat) < 32 := by decide
      have e24 : UInt32.ofNat 24 = 24 := rfl
      simp only [h24, if_true, e24, Rs.as', Rs.As.cast]
      by_cases hc : (c >>> 24).toUInt8 = x
      · simp [openOf, hc, toModel_ofModel]
      · have hc' : ¬ x = (c >>> 24).toUInt8 := fun h => hc h.symm
        simp [openOf, hc, hc']
    | InfoZipMsdosTime t =>
      simp only [hi, hx, Rs.Arith.shr, valOf, Validator.byte]
      have h8 : (8 : Nat) < 16 := by decide
      have e8 : UInt16.ofNat 8 = 8 := rfl
      simp only [h8, if_true, e8, Rs.as', Rs.As.cast]
      by_cases hc : (t >>> 8).toUInt8 = x
      · simp [openOf, hc, toModel_ofModel]
      · have hc' : ¬ x = (t >>> 8).toUInt8 := fun h => hc h.symm
        simp [openOf, hc, hc']

/-! ### Against the in-memory model of C15 (`Model.ZipCrypto.Reader`, `Writer`) -/

/-- `ZipCryptoReader::new` -/
theorem tie_zipcrypto_new (file : σ) (password : Bytes) (inner : Src σ) :
    @Gen.ZipCryptoReader.new σ (readOf inner) file password = some ⟨file, ofModel (derive password)⟩ := by
  unfold Gen.ZipCryptoReader.new
  rw [tie_derive]; rfl

theorem decryptAll_eq_map (k : Keys) (cs : Bytes) :
    decryptAll k cs = (mapBytes decryptByte k cs, mapKey decryptByte k cs) := by
  induction cs generalizing k with
  | nil => rfl
  | cons c cs ih => rw [decryptAll, ih]; simp [mapBytes, mapKey_cons]

theorem encryptAll_eq_map (k : Keys) (ps : Bytes) :
    encryptAll k ps = (mapBytes encryptByte k ps, mapKey encryptByte k ps) := by
  induction ps generalizing k with
  | nil => rfl
  | cons c cs ih => rw [encryptAll, ih]; simp [mapBytes, mapKey_cons]

/-- an in-memory reader (`&[u8]`, `Cursor`): delivers as much as is asked for and there -/
def memSrc : Src Bytes := ⟨fun bs n => (.ok (bs.take n), bs.drop n)⟩

theorem readExactAux_mem (fuel : Nat) (bs : Bytes) (n : Nat) (hf : n ≤ fuel) :
    readExactAux memSrc fuel bs n =
      if n ≤ bs.length then (.ok (bs.take n), bs.drop n) else (.err .unexpectedEof, []) := by
  cases n with
  | zero => cases fuel <;> simp [readExactAux]
  | succ m =>
    cases fuel with
    | zero => omega
    | succ f =>
      simp only [readExactAux, memSrc]
      cases bs with
      | nil => simp
      | cons b bt =>
        have hne : ¬ List.take (m + 1) (b :: bt) = [] := by simp
        have hle : (List.take (m + 1) (b :: bt)).length ≤ m + 1 := by simp [List.length_take]; omega
        simp only [hne, if_false, hle, if_true]
        by_cases hl : m + 1 ≤ (b :: bt).length
        · have h0 : m + 1 - (List.take (m + 1) (b :: bt)).length = 0 := by
            simp only [List.length_take]; omega
          rw [h0]
          have hl' : m ≤ bt.length := by simpa using hl
          cases f <;> simp [readExactAux, hl']
        · have hk : (List.take (m + 1) (b :: bt)).length = (b :: bt).length := by
            simp only [List.length_take]; omega
          have hd : List.drop (m + 1) (b :: bt) = [] := List.drop_eq_nil_of_le (by omega)
          rw [hk, hd]
          obtain ⟨k, hk2⟩ : ∃ k, m + 1 - (b :: bt).length = k + 1 := ⟨m - (b :: bt).length, by omega⟩
          rw [hk2]
          cases f with
          | zero => simp at hk2; omega
          | succ f' =>
            have hl' : bt.length < m := by simp at hl; omega
            simp [readExactAux, hl']

/-- the generated outcome of `validate` over an in-memory input, in the vocabulary of `Model.ZipCrypto` -/
def outOpen : Rs.IoRes (Option (Gen.ZipCryptoReaderValid Bytes)) → Out (Option Reader)
  | .ok (some v) => .ok (some ⟨v.reader.file, toModel v.reader.keys⟩)
  | .ok none => .ok none
  | .err e => .err (.io e)
  | .panic => .panic "zipcrypto.rs validate"

/-- **`ZipCryptoReader::validate` over an in-memory input is `Model.ZipCrypto.Reader.validate`** (C15). -/
theorem tie_zipcrypto_validate_mem (r : Gen.ZipCryptoReader Bytes) (v : Gen.ZipCryptoValidator) :
    outOpen (@Gen.ZipCryptoReader.validate Bytes (readOf memSrc) r v) =
      Reader.validate ⟨r.file, toModel r.keys⟩ (valOf v) := by
  have h := tie_zipcrypto_validate memSrc r v
  unfold zcValidate readExact at h
  rw [readExactAux_mem 12 r.file 12 (Nat.le_refl _)] at h
  unfold Reader.validate rdN
  by_cases hl : 12 ≤ r.file.length
  · simp only [hl, if_true] at h ⊢
    rw [decryptAll_eq_map]
    generalize @Gen.ZipCryptoReader.validate Bytes (readOf memSrc) r v = g at h
    by_cases hv : (mapBytes decryptByte (toModel r.keys) (List.take 12 r.file))[11]? = some (valOf v).byte
    · simp only [hv, if_true] at h ⊢
      cases g with
      | ok o => cases o <;> simp_all [openOf, outOpen]
      | err e => simp [openOf] at h
      | panic => simp [openOf] at h
    · simp only [hv, if_false] at h ⊢
      cases g with
      | ok o => cases o <;> simp_all [openOf, outOpen]
      | err e => simp [openOf] at h
      | panic => simp [openOf] at h
  · simp only [hl, if_false] at h ⊢
    generalize @Gen.ZipCryptoReader.validate Bytes (readOf memSrc) r v = g at h
    cases g with
    | ok o => cases o <;> simp [openOf] at h
    | err e => simp_all [openOf, outOpen]
    | panic => simp [openOf] at h

/-! ### `ZipCryptoWriter` -/

variable {ω : Type}

/-- the generated writer without its sink, as the model's -/
def wOf (w : Gen.ZipCryptoWriter ω) : Writer := ⟨w.buffer, toModel w.keys⟩

/-- **`ZipCryptoWriter::write` only buffers** and reports the whole length. -/
theorem tie_zipcrypto_write [Rs.Write ω] (w : Gen.ZipCryptoWriter ω) (buf : Bytes) :
    Gen.ZipCryptoWriter.write w buf =
      (.ok (Rs.len buf), ⟨w.writer, ((wOf w).write buf).buffer, w.keys⟩) := rfl

theorem tie_zipcrypto_flush [Rs.Write ω] (w : Gen.ZipCryptoWriter ω) :
    Gen.ZipCryptoWriter.flush w = (.ok (), w) := rfl

/-- **`ZipCryptoWriter::finish` is `Model.ZipCrypto.Writer.finish`** followed by ONE `write_all` of the
result and a `flush` of the sink: byte 11 of the buffer is replaced by the high byte of the CRC (a
buffer shorter than 12 bytes panics), then EVERYTHING buffered is encrypted in order. -/
theorem tie_zipcrypto_finish [Rs.Write ω] (w : Gen.ZipCryptoWriter ω) (crc : UInt32) :
    Gen.ZipCryptoWriter.finish w crc =
      match (wOf w).finish crc with
      | .ok bytes =>
        (match Rs.L.write_all w.writer bytes with
         | (.ok _, w1) =>
           (match Rs.L.flush w1 with
            | (.ok _, w2) => .ok w2
            | (r, _) => r.fail)
         | (r, _) => r.fail)
      | _ => .panic := by
  unfold Gen.ZipCryptoWriter.finish Writer.finish wOf
  have h24 : (24 : Nat) < 32 := by decide
  have e24 : UInt32.ofNat 24 = 24 := rfl
  have e11 : (11 : UInt64).toNat = 11 := rfl
  simp only [Id.run, Rs.L.id_pure, Rs.Arith.shr, h24, if_true, e24, Rs.L.setIdx, e11, Rs.as', Rs.As.cast]
  by_cases hl : 11 < w.buffer.length
  · simp only [hl, if_true]
    rw [iterMut_lens (fun st : Gen.ZipCryptoWriter ω => toModel st.keys)
      (fun st k => { st with keys := ofModel k }) encryptByte _
      (by intro st b; simp only [tie_encrypt_byte]; rfl) (by intros; rfl) (by intros; rfl)
      (by intro st; simp only [ofModel_toModel])]
    simp only [encryptAll_eq_map]
    rcases Rs.L.write_all w.writer (mapBytes encryptByte (toModel w.keys) (w.buffer.set 11 (crc >>> 24).toUInt8)) with ⟨r1, w1⟩
    cases r1 with
    | ok u =>
      simp only []
      rcases Rs.L.flush w1 with ⟨r2, w2⟩
      cases r2 <;> rfl
    | err e => rfl
    | panic => rfl
  · simp [hl]

end ZipVerif.Tie.ZcLayer
