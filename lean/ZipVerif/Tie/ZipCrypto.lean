import ZipVerif.Gen.ZipCrypto
import ZipVerif.Model.ZipCrypto
/-
Tie obligations for the ZipCrypto cipher: the code regenerated from /repo/src/zipcrypto.rs on this run
(`Gen.CRCTABLE`, `Gen.ZipCryptoKeys.*`) equals the hand model the C15 theorems are stated over, for
every input, and never takes the `none` (= panic) path: the table index is a `u8`, the shifts are by
constants below the bit width, and all arithmetic is `Wrapping`.
A source edit that changes a table entry, a constant, a shift, a mask or the order of the key updates
breaks one of these.
-/

namespace ZipVerif.Tie.ZipCrypto
open ZipVerif ZipVerif.Model.ZipCrypto

def toModel (g : Gen.ZipCryptoKeys) : Keys := ⟨g.key_0.val, g.key_1.val, g.key_2.val⟩
def ofModel (k : Keys) : Gen.ZipCryptoKeys := ⟨⟨k.key0⟩, ⟨k.key1⟩, ⟨k.key2⟩⟩

theorem toModel_ofModel (k : Keys) : toModel (ofModel k) = k := rfl
theorem ofModel_toModel (g : Gen.ZipCryptoKeys) : ofModel (toModel g) = g := rfl

/-- **The crate's literal 256-entry table is the CRC-32 table of the polynomial 0xEDB88320**: all 256
entries, by kernel evaluation of the bit-serial division (on natural numbers, for speed). -/
theorem tie_crctable_nat :
    ∀ i, i < 256 → (Gen.CRCTABLE[i]?).map UInt32.toNat = some (Spec.Crc32.tableEntryNat i) := by
  decide +kernel

theorem tie_crctable_size : Gen.CRCTABLE.size = 256 := by decide +kernel

/-- Entry `i` of the crate's table is the remainder the spec computes for the byte `i`. -/
theorem tie_crctable (i : UInt8) : Gen.CRCTABLE[i.toNat]? = some (Spec.Crc32.tableEntry i) := by
  have h := tie_crctable_nat i.toNat i.toNat_lt
  cases hx : Gen.CRCTABLE[i.toNat]? with
  | none => rw [hx] at h; cases h
  | some x =>
    rw [hx] at h
    have hn : x.toNat = Spec.Crc32.tableEntryNat i.toNat := Option.some.inj h
    rw [← Spec.Crc32.tableEntry_toNat] at hn
    rw [UInt32.toNat_inj.mp hn]

/-- Every `u8` index hits the table (the `usize` index expression never panics) and finds the spec entry. -/
theorem tie_crctable_index (i : UInt8) :
    Rs.index Gen.CRCTABLE (Rs.as' UInt64 i) = some (Spec.Crc32.tableEntry i) := by
  unfold Rs.index
  show Gen.CRCTABLE[(i.toUInt64).toNat]? = _
  rw [UInt8.toNat_toUInt64]
  exact tie_crctable i

theorem tie_new : Gen.ZipCryptoKeys.new.map toModel = some Keys.new := rfl

theorem tie_crc32 (crc : Rs.Wrapping UInt32) (input : UInt8) :
    Gen.ZipCryptoKeys.crc32 crc input = some ⟨crc32 crc.val input⟩ := by
  unfold Gen.ZipCryptoKeys.crc32
  rw [tie_crctable_index]
  rfl

theorem tie_update (g : Gen.ZipCryptoKeys) (input : UInt8) :
    Gen.ZipCryptoKeys.update g input = some (ofModel ((toModel g).update input)) := by
  unfold Gen.ZipCryptoKeys.update
  simp only [tie_crc32, Rs.Arith.add, Rs.Arith.mul, Rs.Arith.shr, bind, Option.bind, pure]
  rfl

theorem tie_stream_byte (g : Gen.ZipCryptoKeys) :
    Gen.ZipCryptoKeys.stream_byte g = some ((toModel g).streamByte, g) := by
  unfold Gen.ZipCryptoKeys.stream_byte
  simp only [Rs.Arith.mul, Rs.Arith.shr, bind, Option.bind, pure]
  rfl

theorem tie_decrypt_byte (g : Gen.ZipCryptoKeys) (c : UInt8) :
    Gen.ZipCryptoKeys.decrypt_byte g c =
      some ((decryptByte (toModel g) c).1, ofModel (decryptByte (toModel g) c).2) := by
  unfold Gen.ZipCryptoKeys.decrypt_byte
  simp only [tie_stream_byte, tie_update, bind, Option.bind, pure]
  rfl

theorem tie_encrypt_byte (g : Gen.ZipCryptoKeys) (p : UInt8) :
    Gen.ZipCryptoKeys.encrypt_byte g p =
      some ((encryptByte (toModel g) p).1, ofModel (encryptByte (toModel g) p).2) := by
  unfold Gen.ZipCryptoKeys.encrypt_byte
  simp only [tie_stream_byte, tie_update, bind, Option.bind, pure]
  rfl

/-- The `for byte in password` loop of `derive`, from any starting key state. -/
theorem tie_derive_loop (password : Bytes) (g : Gen.ZipCryptoKeys) :
    (forIn password g fun byte r =>
        (some (ForInStep.yield (ofModel ((toModel r).update byte))) : Option _)) =
      some (ofModel (password.foldl Keys.update (toModel g))) := by
  induction password generalizing g with
  | nil => rfl
  | cons b bs ih =>
    rw [List.forIn_cons]
    simp only [bind, Option.bind]
    rw [ih]
    rfl

theorem tie_derive (password : Bytes) :
    Gen.ZipCryptoKeys.derive password = some (ofModel (derive password)) := by
  unfold Gen.ZipCryptoKeys.derive
  simp only [Gen.ZipCryptoKeys.new, tie_update, bind, Option.bind, pure]
  rw [tie_derive_loop]
  rfl

end ZipVerif.Tie.ZipCrypto
