//! rs2lean: translate a small, explicitly listed subset of zip-rs/zip's Rust source into Lean 4
//! definitions (`ZipVerif/Gen/*.lean`).  Run on every check, so the Tie obligations
//! (`Gen.f = Model.f`) are re-checked against what the source says *now*.
//!
//!   rs2lean <src-dir> <out-dir> <items-file>
//!
//! Semantics of the subset (mirrored by `ZipVerif/Basic/Rs.lean`):
//!   * every translated function lives in `Option` (`none` = panic);
//!   * `+ - *` are checked on primitive integers and wrapping on `Wrapping<T>` (type class `Rs.Arith`);
//!   * `<< >>` take a literal amount and are checked against the bit width;
//!   * `as` is `Rs.as'` (truncate / zero-extend);  `usize` is `UInt64`;
//!   * `&mut self` methods return the updated `self` (paired with the result if there is one).
//! Anything outside the subset makes the *item* untranslated (reported on stdout, emitted as a
//! comment), never silently approximated.
use std::collections::{BTreeMap, HashMap, HashSet};
use std::fmt::Write as _;
use syn::spanned::Spanned;
use syn::*;

const FEATURES: &[&str] = &["aes-crypto", "bzip2", "deflate", "time", "zstd"];

type R<T> = std::result::Result<T, String>;

fn cfg_meta_true(m: &Meta) -> bool {
    match m {
        Meta::NameValue(nv) if nv.path.is_ident("feature") => {
            if let Expr::Lit(ExprLit { lit: Lit::Str(s), .. }) = &nv.value {
                FEATURES.contains(&s.value().as_str())
            } else {
                false
            }
        }
        Meta::List(l) => {
            let inner: Vec<Meta> = l
                .parse_args_with(punctuated::Punctuated::<Meta, Token![,]>::parse_terminated)
                .map(|p| p.into_iter().collect())
                .unwrap_or_default();
            if l.path.is_ident("any") {
                inner.iter().any(cfg_meta_true)
            } else if l.path.is_ident("all") {
                inner.iter().all(cfg_meta_true)
            } else if l.path.is_ident("not") {
                !inner.iter().all(cfg_meta_true)
            } else {
                false
            }
        }
        Meta::Path(p) => p.is_ident("unix"),
        _ => false,
    }
}

/// Are all `#[cfg(...)]` attributes satisfied under the default feature set?
fn cfg_on(attrs: &[Attribute]) -> bool {
    for a in attrs {
        if a.path().is_ident("cfg") {
            if let Meta::List(l) = &a.meta {
                if let Ok(m) = l.parse_args::<Meta>() {
                    if !cfg_meta_true(&m) {
                        return false;
                    }
                }
            }
        }
    }
    true
}

#[derive(Clone)]
struct MethodInfo {
    mut_self: bool,
    has_self: bool,
    unit_ret: bool,
}

#[derive(Default)]
struct Registry {
    /// enum name → variants (name, has_payload)
    enums: HashMap<String, Vec<(String, bool)>>,
    structs: HashSet<String>,
    /// "Type::method" → info
    methods: HashMap<String, MethodInfo>,
    consts: HashSet<String>,
    fns: HashSet<String>,
}

struct Tr<'a> {
    reg: &'a Registry,
    self_ty: Option<String>,
    tmp: usize,
    lines: Vec<String>,
    indent: usize,
    ret_ty: Option<String>,
    /// type annotation for the next `let t ← (if/match …)` binding (tail position / typed let)
    hint: Option<String>,
}

fn path_last(p: &Path) -> String {
    p.segments.last().map(|s| s.ident.to_string()).unwrap_or_default()
}

fn lit_str(l: &LitInt) -> (String, Option<String>) {
    let digits = l.to_string();
    let suffix = l.suffix().to_string();
    let body = digits.trim_end_matches(&suffix).replace('_', "");
    let body = if body.starts_with("0o") {
        // Lean has 0o literals too, keep
        body
    } else {
        body
    };
    (body, if suffix.is_empty() { None } else { Some(suffix) })
}

fn prim_ty(s: &str) -> Option<&'static str> {
    Some(match s {
        "u8" => "UInt8",
        "u16" => "UInt16",
        "u32" => "UInt32",
        "u64" | "usize" => "UInt64",
        "bool" => "Bool",
        "char" => "Char",
        _ => return None,
    })
}

impl<'a> Tr<'a> {
    fn ty(&self, t: &Type) -> R<String> {
        match t {
            Type::Reference(r) => self.ty(&r.elem),
            Type::Paren(p) => self.ty(&p.elem),
            Type::Slice(s) => {
                let e = self.ty(&s.elem)?;
                if e == "UInt8" { Ok("Bytes".into()) } else { Err(format!("slice of {e}")) }
            }
            Type::Array(a) => {
                let e = self.ty(&a.elem)?;
                Ok(format!("(Array {e})"))
            }
            Type::Tuple(t) => {
                if t.elems.is_empty() {
                    return Ok("Unit".into());
                }
                let parts: R<Vec<String>> = t.elems.iter().map(|e| self.ty(e)).collect();
                Ok(format!("({})", parts?.join(" × ")))
            }
            Type::Path(p) => {
                let seg = p.path.segments.last().ok_or("empty path")?;
                let name = seg.ident.to_string();
                if let Some(p) = prim_ty(&name) {
                    return Ok(p.into());
                }
                let args: Vec<&Type> = match &seg.arguments {
                    PathArguments::AngleBracketed(a) => a
                        .args
                        .iter()
                        .filter_map(|g| if let GenericArgument::Type(t) = g { Some(t) } else { None })
                        .collect(),
                    _ => vec![],
                };
                match name.as_str() {
                    "Self" => self.self_ty.clone().map(|s| format!("Gen.{s}")).ok_or("Self outside impl".into()),
                    "Wrapping" => Ok(format!("(Rs.Wrapping {})", self.ty(args[0])?)),
                    "Option" => Ok(format!("(Option {})", self.ty(args[0])?)),
                    "Result" => Ok(format!("(Except {} {})", self.ty(args[1])?, self.ty(args[0])?)),
                    "Vec" => {
                        let e = self.ty(args[0])?;
                        if e == "UInt8" { Ok("Bytes".into()) } else { Err(format!("Vec of {e}")) }
                    }
                    "String" | "str" => Ok("Bytes".into()),
                    n if self.reg.enums.contains_key(n) || self.reg.structs.contains(n) => Ok(format!("Gen.{n}")),
                    n => Err(format!("unsupported type {n}")),
                }
            }
            _ => Err("unsupported type form".into()),
        }
    }

    fn fresh(&mut self) -> String {
        self.tmp += 1;
        format!("t{}", self.tmp)
    }
    fn emit(&mut self, s: String) {
        let pad = "  ".repeat(self.indent);
        self.lines.push(format!("{pad}{s}"));
    }
    fn bind_m(&mut self, rhs: String) -> String {
        let t = self.fresh();
        self.emit(format!("let {t} ← {rhs}"));
        t
    }
    fn bind_typed(&mut self, rhs: String, ty: Option<String>) -> String {
        let t = self.fresh();
        match ty {
            Some(ty) => self.emit(format!("let {t} : {ty} ← {rhs}")),
            None => self.emit(format!("let {t} ← {rhs}")),
        }
        t
    }

    fn is_variant(&self, name: &str) -> Option<(String, bool)> {
        for (e, vs) in &self.reg.enums {
            for (v, p) in vs {
                if v == name {
                    return Some((e.clone(), *p));
                }
            }
        }
        None
    }

    /// Translate an expression to an atom (identifier / literal / parenthesised pure term),
    /// emitting `let` statements for monadic sub-steps.
    fn expr(&mut self, e: &Expr) -> R<String> {
        match e {
            Expr::Paren(p) => self.expr(&p.expr),
            Expr::Group(g) => self.expr(&g.expr),
            Expr::Reference(r) => self.expr(&r.expr),
            Expr::Unary(u) => match u.op {
                UnOp::Deref(_) => self.expr(&u.expr),
                UnOp::Not(_) => {
                    let a = self.expr(&u.expr)?;
                    Ok(format!("(!{a})"))
                }
                _ => Err("unary minus".into()),
            },
            Expr::Lit(l) => match &l.lit {
                Lit::Int(i) => {
                    let (b, suf) = lit_str(i);
                    match suf {
                        Some(s) => {
                            let t = prim_ty(&s).ok_or(format!("literal suffix {s}"))?;
                            Ok(format!("({b} : {t})"))
                        }
                        None => Ok(b),
                    }
                }
                Lit::Bool(b) => Ok(if b.value { "true".into() } else { "false".into() }),
                _ => Err("unsupported literal".into()),
            },
            Expr::Path(p) => {
                let name = path_last(&p.path);
                if p.path.segments.len() == 1 {
                    if self.reg.consts.contains(&name) {
                        return Ok(format!("Gen.{name}"));
                    }
                    if let Some((en, false)) = self.is_variant(&name) {
                        return Ok(format!("Gen.{en}.{name}"));
                    }
                    if name == "None" {
                        return Ok("none".into());
                    }
                    return Ok(name);
                }
                // qualified path: module::CONST, Enum::Variant, Self::Variant
                let first = p.path.segments[p.path.segments.len() - 2].ident.to_string();
                if self.reg.consts.contains(&name) {
                    return Ok(format!("Gen.{name}"));
                }
                let en = if first == "Self" { self.self_ty.clone().unwrap_or_default() } else { first };
                if let Some(vs) = self.reg.enums.get(&en) {
                    if vs.iter().any(|(v, _)| *v == name) {
                        return Ok(format!("Gen.{en}.{name}"));
                    }
                }
                Err(format!("unknown path {}", quote::quote!(#p)))
            }
            Expr::Field(f) => {
                let b = self.expr(&f.base)?;
                match &f.member {
                    Member::Named(n) => Ok(format!("{b}.{n}")),
                    Member::Unnamed(i) if i.index == 0 => Ok(format!("{b}.val")),
                    _ => Err("tuple field".into()),
                }
            }
            Expr::Cast(c) => {
                let a = self.expr(&c.expr)?;
                let t = self.ty(&c.ty)?;
                // enum → integer casts use the generated discriminant function
                if let Expr::Field(_) | Expr::Path(_) = &*c.expr {
                    // cannot know statically; handled by the `As` instance for enums if generated
                }
                Ok(format!("(Rs.as' {t} {a})"))
            }
            Expr::Binary(b) => self.binary(b),
            Expr::If(i) => self.if_expr(i),
            Expr::Match(m) => self.match_expr(m),
            Expr::Block(b) => {
                // value block
                self.block_value(&b.block)
            }
            Expr::Struct(s) => {
                let name = path_last(&s.path);
                let name = if name == "Self" { self.self_ty.clone().unwrap_or_default() } else { name };
                let mut fs = vec![];
                for f in &s.fields {
                    let v = self.expr(&f.expr)?;
                    if let Member::Named(n) = &f.member {
                        fs.push(format!("{n} := {v}"));
                    }
                }
                if s.rest.is_some() {
                    return Err("struct update syntax".into());
                }
                Ok(format!("({{ {} }} : Gen.{name})", fs.join(", ")))
            }
            Expr::Tuple(t) => {
                if t.elems.is_empty() {
                    return Ok("()".into());
                }
                let parts: R<Vec<String>> = t.elems.iter().map(|e| self.expr(e)).collect();
                Ok(format!("({})", parts?.join(", ")))
            }
            Expr::Index(ix) => {
                let a = self.expr(&ix.expr)?;
                let i = self.expr(&ix.index)?;
                Ok(self.bind_m(format!("Rs.index {a} {i}")))
            }
            Expr::Call(c) => self.call(c),
            Expr::MethodCall(m) => self.method_call(m),
            Expr::Return(_) => Err("return in expression position".into()),
            Expr::Macro(m) => Err(format!("macro {}", path_last(&m.mac.path))),
            other => Err(format!("unsupported expression at line {}", other.span().start().line)),
        }
    }

    fn binary(&mut self, b: &ExprBinary) -> R<String> {
        use BinOp::*;
        // short-circuit operators: rhs may only be evaluated conditionally
        if matches!(b.op, And(_) | Or(_)) {
            let l = self.expr(&b.left)?;
            let mark = self.lines.len();
            let saved_indent = self.indent;
            self.indent += 2;
            let r = self.expr(&b.right)?;
            self.indent = saved_indent;
            if self.lines.len() == mark {
                return Ok(match b.op {
                    And(_) => format!("({l} && {r})"),
                    _ => format!("({l} || {r})"),
                });
            }
            // rhs has monadic steps: wrap them in a conditional do-block
            let inner: Vec<String> = self.lines.drain(mark..).collect();
            let t = self.fresh();
            let (cond, other) = match b.op {
                And(_) => (l.clone(), "pure false"),
                _ => (format!("(!{l})"), "pure true"),
            };
            self.emit(format!("let {t} ← (if {cond} then (do"));
            for l in inner {
                self.lines.push(l);
            }
            self.emit(format!("    pure {r}) else {other})"));
            return Ok(t);
        }
        let l = self.expr(&b.left)?;
        match b.op {
            Shl(_) | Shr(_) => {
                let n = match &*b.right {
                    Expr::Lit(ExprLit { lit: Lit::Int(i), .. }) => lit_str(i).0,
                    _ => return Err("shift by a non-literal".into()),
                };
                let f = if matches!(b.op, Shl(_)) { "shl" } else { "shr" };
                Ok(self.bind_m(format!("Rs.Arith.{f} {l} {n}")))
            }
            _ => {
                let r = self.expr(&b.right)?;
                Ok(match b.op {
                    Add(_) => self.bind_m(format!("Rs.Arith.add {l} {r}")),
                    Sub(_) => self.bind_m(format!("Rs.Arith.sub {l} {r}")),
                    Mul(_) => self.bind_m(format!("Rs.Arith.mul {l} {r}")),
                    Div(_) => self.bind_m(format!("Rs.Arith.div {l} {r}")),
                    Rem(_) => self.bind_m(format!("Rs.Arith.rem {l} {r}")),
                    BitAnd(_) => format!("({l} &&& {r})"),
                    BitOr(_) => format!("({l} ||| {r})"),
                    BitXor(_) => format!("({l} ^^^ {r})"),
                    Eq(_) => format!("({l} == {r})"),
                    Ne(_) => format!("({l} != {r})"),
                    Lt(_) => format!("(decide ({l} < {r}))"),
                    Le(_) => format!("(decide ({l} ≤ {r}))"),
                    Gt(_) => format!("(decide ({l} > {r}))"),
                    Ge(_) => format!("(decide ({l} ≥ {r}))"),
                    _ => return Err("unsupported binary operator".into()),
                })
            }
        }
    }

    /// Translate a block used as a value into a parenthesised `(do … pure v)` term bound to a temp.
    fn sub_do(&mut self, f: impl FnOnce(&mut Self) -> R<String>) -> R<String> {
        let mark = self.lines.len();
        let saved = self.indent;
        self.indent += 2;
        let v = f(self)?;
        self.indent = saved;
        let inner: Vec<String> = self.lines.drain(mark..).collect();
        if inner.is_empty() {
            return Ok(format!("(pure {v})"));
        }
        let pad = "  ".repeat(saved + 2);
        let mut s = String::from("(do\n");
        for l in inner {
            s += &l;
            s.push('\n');
        }
        write!(s, "{pad}pure {v})").unwrap();
        Ok(s)
    }

    fn block_value(&mut self, b: &Block) -> R<String> {
        let n = b.stmts.len();
        for (i, s) in b.stmts.iter().enumerate() {
            if i + 1 == n {
                if let Stmt::Expr(e, None) = s {
                    return self.expr(e);
                }
            }
            let saved_hint = self.hint.take();
            self.stmt(s)?;
            self.hint = saved_hint;
        }
        Ok("()".into())
    }

    fn if_expr(&mut self, i: &ExprIf) -> R<String> {
        if let Expr::Let(_) = &*i.cond {
            return Err("if let".into());
        }
        let hint = self.hint.take();
        let c = self.expr(&i.cond)?;
        let then_b = i.then_branch.clone();
        let a = self.sub_do(|s| s.block_value(&then_b))?;
        let b = match &i.else_branch {
            Some((_, e)) => {
                let e = (**e).clone();
                self.sub_do(|s| match &e {
                    Expr::Block(b) => s.block_value(&b.block),
                    other => s.expr(other),
                })?
            }
            None => "(pure ())".into(),
        };
        Ok(self.bind_typed(format!("(if {c} then {a} else {b})"), hint))
    }

    fn pat_int_cond(&mut self, scrut: &str, p: &Pat) -> R<Option<String>> {
        // returns Some(condition) or None for wildcard / binding
        match p {
            Pat::Lit(l) => {
                if let Lit::Int(i) = &l.lit {
                    Ok(Some(format!("({scrut} == {})", lit_str(i).0)))
                } else {
                    Err("non-integer literal pattern".into())
                }
            }
            Pat::Range(r) => {
                let lo = match r.start.as_deref() {
                    Some(Expr::Lit(ExprLit { lit: Lit::Int(i), .. })) => lit_str(i).0,
                    _ => return Err("range pattern start".into()),
                };
                let hi = match r.end.as_deref() {
                    Some(Expr::Lit(ExprLit { lit: Lit::Int(i), .. })) => lit_str(i).0,
                    _ => return Err("range pattern end".into()),
                };
                match r.limits {
                    RangeLimits::Closed(_) => Ok(Some(format!("(decide ({lo} ≤ {scrut}) && decide ({scrut} ≤ {hi}))"))),
                    RangeLimits::HalfOpen(_) => Ok(Some(format!("(decide ({lo} ≤ {scrut}) && decide ({scrut} < {hi}))"))),
                }
            }
            Pat::Wild(_) => Ok(None),
            Pat::Ident(id) if self.is_variant(&id.ident.to_string()).is_none() => Ok(None),
            Pat::Or(o) => {
                let mut cs = vec![];
                for c in &o.cases {
                    match self.pat_int_cond(scrut, c)? {
                        Some(c) => cs.push(c),
                        None => return Ok(None),
                    }
                }
                Ok(Some(format!("({})", cs.join(" || "))))
            }
            _ => Err("unsupported integer pattern".into()),
        }
    }

    fn pat_lean(&self, p: &Pat) -> R<String> {
        match p {
            Pat::Wild(_) => Ok("_".into()),
            Pat::Lit(l) => match &l.lit {
                Lit::Bool(b) => Ok(if b.value { "true".into() } else { "false".into() }),
                _ => Err("literal in structural pattern".into()),
            },
            Pat::Ident(id) => {
                let n = id.ident.to_string();
                if let Some((en, _)) = self.is_variant(&n) {
                    Ok(format!("Gen.{en}.{n}"))
                } else {
                    Ok(n)
                }
            }
            Pat::Path(p) => {
                let n = path_last(&p.path);
                let first = if p.path.segments.len() >= 2 { p.path.segments[p.path.segments.len() - 2].ident.to_string() } else { String::new() };
                let en = if first == "Self" { self.self_ty.clone().unwrap_or_default() } else if first.is_empty() {
                    self.is_variant(&n).map(|x| x.0).unwrap_or_default()
                } else { first };
                Ok(format!("Gen.{en}.{n}"))
            }
            Pat::TupleStruct(ts) => {
                let n = path_last(&ts.path);
                let first = if ts.path.segments.len() >= 2 { ts.path.segments[ts.path.segments.len() - 2].ident.to_string() } else { String::new() };
                let inner: R<Vec<String>> = ts.elems.iter().map(|e| self.pat_lean(e)).collect();
                if n == "Some" {
                    return Ok(format!("(some {})", inner?.join(" ")));
                }
                let en = if first == "Self" { self.self_ty.clone().unwrap_or_default() } else if first.is_empty() {
                    self.is_variant(&n).map(|x| x.0).unwrap_or_default()
                } else { first };
                Ok(format!("(Gen.{en}.{n} {})", inner?.join(" ")))
            }
            Pat::Tuple(t) => {
                let inner: R<Vec<String>> = t.elems.iter().map(|e| self.pat_lean(e)).collect();
                Ok(format!("({})", inner?.join(", ")))
            }
            Pat::Reference(r) => self.pat_lean(&r.pat),
            Pat::Rest(_) => Ok("..".into()),
            _ => Err("unsupported pattern".into()),
        }
    }

    fn match_expr(&mut self, m: &ExprMatch) -> R<String> {
        let arms: Vec<&Arm> = m.arms.iter().filter(|a| cfg_on(&a.attrs)).collect();
        if arms.iter().any(|a| a.guard.is_some()) {
            return Err("match guard".into());
        }
        let integer = arms.iter().any(|a| matches!(a.pat, Pat::Lit(PatLit { lit: Lit::Int(_), .. }) | Pat::Range(_)));
        let hint = self.hint.take();
        let scrut = self.expr(&m.expr)?;
        if integer {
            // a nested do-block of statement-level `if c then return v`, last arm as the default
            let mark = self.lines.len();
            let saved = self.indent;
            self.indent += 2;
            let n = arms.len();
            for (k, a) in arms.iter().enumerate() {
                let body = (*a.body).clone();
                let bind = if let Pat::Ident(id) = &a.pat { Some(id.ident.to_string()) } else { None };
                let c = self.pat_int_cond(&scrut, &a.pat)?;
                // no default arm: rustc has checked exhaustiveness, so the last arm is the default
                let c = if k + 1 == n { None } else { c };
                match c {
                    Some(c) => {
                        self.emit(format!("if {c} then"));
                        self.indent += 1;
                        let v = self.expr(&body)?;
                        self.emit(format!("return {v}"));
                        self.indent -= 1;
                    }
                    None => {
                        if let Some(nm) = &bind {
                            self.emit(format!("let {nm} := {scrut}"));
                        }
                        let v = self.expr(&body)?;
                        self.emit(format!("pure {v}"));
                        break;
                    }
                }
            }
            self.indent = saved;
            let inner: Vec<String> = self.lines.drain(mark..).collect();
            let mut rhs = String::from("(do\n");
            for (k, l) in inner.iter().enumerate() {
                rhs += l;
                if k + 1 < inner.len() { rhs.push('\n'); }
            }
            rhs.push(')');
            return Ok(self.bind_typed(rhs, hint));
        }
        // structural match
        let mut s = format!("(match {scrut} with");
        let pad = "  ".repeat(self.indent + 1);
        for a in &arms {
            let p = self.pat_lean(&a.pat)?;
            let body = (*a.body).clone();
            let b = self.sub_do(|s| s.expr(&body))?;
            write!(s, "\n{pad}| {p} => {b}").unwrap();
        }
        s.push(')');
        Ok(self.bind_typed(s, hint))
    }

    fn call(&mut self, c: &ExprCall) -> R<String> {
        let p = match &*c.func {
            Expr::Path(p) => p,
            _ => return Err("call of a non-path".into()),
        };
        let name = path_last(&p.path);
        let args: R<Vec<String>> = c.args.iter().map(|a| self.expr(a)).collect();
        let args = args?;
        let first = if p.path.segments.len() >= 2 { p.path.segments[p.path.segments.len() - 2].ident.to_string() } else { String::new() };
        match (first.as_str(), name.as_str()) {
            (_, "Wrapping") => return Ok(format!("(Rs.Wrapping.mk {})", args[0])),
            (_, "Some") => return Ok(format!("(some {})", args[0])),
            (_, "Ok") => return Ok(format!("(Except.ok {})", args[0])),
            (_, "Err") => return Ok(format!("(Except.error {})", args[0])),
            ("char", "from_u32") => return Ok(format!("(Rs.charFromU32 {})", args[0])),
            _ => {}
        }
        // enum variant constructor with payload
        let en = if first == "Self" { self.self_ty.clone().unwrap_or_default() } else { first.clone() };
        if let Some(vs) = self.reg.enums.get(&en) {
            if vs.iter().any(|(v, p)| *v == name && *p) {
                return Ok(format!("(Gen.{en}.{name} {})", args.join(" ")));
            }
        }
        if first.is_empty() {
            if let Some((en, true)) = self.is_variant(&name) {
                return Ok(format!("(Gen.{en}.{name} {})", args.join(" ")));
            }
        }
        // associated function Type::f(args)
        let key = format!("{en}::{name}");
        if self.reg.methods.contains_key(&key) {
            let a = if args.is_empty() { String::new() } else { format!(" {}", args.join(" ")) };
            return Ok(self.bind_m(format!("Gen.{en}.{name}{a}")));
        }
        if first.is_empty() && self.reg.fns.contains(&name) {
            return Ok(self.bind_m(format!("Gen.{name} {}", args.join(" "))));
        }
        Err(format!("unknown function {}", quote::quote!(#p)))
    }

    fn method_call(&mut self, m: &ExprMethodCall) -> R<String> {
        let name = m.method.to_string();
        // (a..=b).contains(&x)
        if name == "contains" {
            if let Expr::Paren(p) = &*m.receiver {
                if let Expr::Range(r) = &*p.expr {
                    let x = self.expr(&m.args[0])?;
                    let lo = self.expr(r.start.as_ref().ok_or("open range")?)?;
                    let hi = self.expr(r.end.as_ref().ok_or("open range")?)?;
                    return Ok(match r.limits {
                        RangeLimits::Closed(_) => format!("(decide ({lo} ≤ {x}) && decide ({x} ≤ {hi}))"),
                        RangeLimits::HalfOpen(_) => format!("(decide ({lo} ≤ {x}) && decide ({x} < {hi}))"),
                    });
                }
            }
        }
        let recv = self.expr(&m.receiver)?;
        let args: R<Vec<String>> = m.args.iter().map(|a| self.expr(a)).collect();
        let args = args?;
        match name.as_str() {
            "iter" | "clone" | "as_bytes" | "into_iter" | "as_slice" | "to_vec" => return Ok(recv),
            "len" => return Ok(format!("(Rs.len {recv})")),
            "is_ascii" => return Ok(format!("(Rs.isAscii {recv})")),
            "is_some" => return Ok(format!("(Option.isSome {recv})")),
            "is_none" => return Ok(format!("(Option.isNone {recv})")),
            "min" => return Ok(format!("(min {recv} {})", args[0])),
            "max" => return Ok(format!("(max {recv} {})", args[0])),
            "unwrap" => {
                // Option/Result unwrap: panic on none.  Only the Option form is supported.
                return Ok(self.bind_m(format!("{recv}")));
            }
            _ => {}
        }
        // method of a registered type, called on `self` or `self.field`
        let owner = self.method_owner(&m.receiver, &name);
        if let Some((ty, info)) = owner {
            let a = if args.is_empty() { String::new() } else { format!(" {}", args.join(" ")) };
            if info.mut_self {
                // the receiver must be a plain (mutable) variable
                if !recv.chars().all(|c| c.is_alphanumeric() || c == '_') {
                    return Err(format!("&mut self method {name} on a non-variable receiver"));
                }
                if info.unit_ret {
                    self.emit(format!("{recv} ← Gen.{ty}.{name} {recv}{a}"));
                    return Ok("()".into());
                }
                let t = self.fresh();
                let t2 = self.fresh();
                self.emit(format!("let ({t}, {t2}) ← Gen.{ty}.{name} {recv}{a}"));
                self.emit(format!("{recv} := {t2}"));
                return Ok(t);
            }
            return Ok(self.bind_m(format!("Gen.{ty}.{name} {recv}{a}")));
        }
        Err(format!("unsupported method .{name}()"))
    }

    fn method_owner(&self, recv: &Expr, name: &str) -> Option<(String, MethodInfo)> {
        // Resolve by unique method name among registered methods, preferring the current impl type.
        if let Some(st) = &self.self_ty {
            if let Expr::Path(p) = recv {
                if p.path.is_ident("self") {
                    if let Some(i) = self.reg.methods.get(&format!("{st}::{name}")) {
                        return Some((st.clone(), i.clone()));
                    }
                }
            }
        }
        let cands: Vec<(&String, &MethodInfo)> = self.reg.methods.iter().filter(|(k, i)| k.ends_with(&format!("::{name}")) && i.has_self).collect();
        if cands.len() == 1 {
            let ty = cands[0].0.split("::").next().unwrap().to_string();
            return Some((ty, cands[0].1.clone()));
        }
        None
    }

    fn stmt(&mut self, s: &Stmt) -> R<()> {
        match s {
            Stmt::Local(l) => {
                let (name, mutable, ty) = match &l.pat {
                    Pat::Ident(id) => (id.ident.to_string(), id.mutability.is_some(), None),
                    Pat::Type(pt) => match &*pt.pat {
                        Pat::Ident(id) => (id.ident.to_string(), id.mutability.is_some(), Some(self.ty(&pt.ty)?)),
                        _ => return Err("let pattern".into()),
                    },
                    _ => return Err("let pattern".into()),
                };
                let init = l.init.as_ref().ok_or("let without initialiser")?;
                if init.diverge.is_some() {
                    return Err("let-else".into());
                }
                self.hint = ty.clone();
                let v = self.expr(&init.expr)?;
                self.hint = None;
                let m = if mutable { "mut " } else { "" };
                match ty {
                    Some(t) => self.emit(format!("let {m}{name} : {t} := {v}")),
                    None => self.emit(format!("let {m}{name} := {v}")),
                }
                Ok(())
            }
            Stmt::Expr(e, _) => self.stmt_expr(e),
            Stmt::Item(Item::Use(_)) => Ok(()),
            Stmt::Item(_) => Err("nested item".into()),
            Stmt::Macro(m) => Err(format!("macro {}", path_last(&m.mac.path))),
        }
    }

    fn stmt_expr(&mut self, e: &Expr) -> R<()> {
        match e {
            Expr::Assign(a) => {
                let v = self.expr(&a.right)?;
                self.assign(&a.left, v)
            }
            Expr::Binary(b) if is_assign_op(&b.op) => {
                let l = self.expr(&b.left)?;
                let r = self.expr(&b.right)?;
                use BinOp::*;
                let v = match b.op {
                    AddAssign(_) => self.bind_m(format!("Rs.Arith.add {l} {r}")),
                    SubAssign(_) => self.bind_m(format!("Rs.Arith.sub {l} {r}")),
                    MulAssign(_) => self.bind_m(format!("Rs.Arith.mul {l} {r}")),
                    BitAndAssign(_) => format!("({l} &&& {r})"),
                    BitOrAssign(_) => format!("({l} ||| {r})"),
                    BitXorAssign(_) => format!("({l} ^^^ {r})"),
                    _ => return Err("compound assignment".into()),
                };
                self.assign(&b.left, v)
            }
            Expr::Return(r) => {
                let v = match &r.expr {
                    Some(e) => self.expr(e)?,
                    None => "()".into(),
                };
                let v = self.wrap_ret(v);
                self.emit(format!("return {v}"));
                Ok(())
            }
            Expr::If(i) if i.else_branch.is_none() || true => {
                // statement-level if: branches are do-sequences (mutation and early return propagate)
                if let Expr::Let(_) = &*i.cond {
                    return Err("if let".into());
                }
                let c = self.expr(&i.cond)?;
                self.emit(format!("if {c} then"));
                self.indent += 1;
                let mark = self.lines.len();
                for s in &i.then_branch.stmts {
                    self.stmt(s)?;
                }
                if self.lines.len() == mark {
                    self.emit("pure ()".into());
                }
                self.indent -= 1;
                if let Some((_, e)) = &i.else_branch {
                    self.emit("else".into());
                    self.indent += 1;
                    let mark = self.lines.len();
                    match &**e {
                        Expr::Block(b) => {
                            for s in &b.block.stmts {
                                self.stmt(s)?;
                            }
                        }
                        other => self.stmt_expr(other)?,
                    }
                    if self.lines.len() == mark {
                        self.emit("pure ()".into());
                    }
                    self.indent -= 1;
                }
                Ok(())
            }
            Expr::ForLoop(f) => {
                let var = match &*f.pat {
                    Pat::Ident(id) => id.ident.to_string(),
                    _ => return Err("for pattern".into()),
                };
                let it = self.expr(&f.expr)?;
                self.emit(format!("for {var} in {it} do"));
                self.indent += 1;
                let mark = self.lines.len();
                for s in &f.body.stmts {
                    self.stmt(s)?;
                }
                if self.lines.len() == mark {
                    self.emit("pure ()".into());
                }
                self.indent -= 1;
                Ok(())
            }
            Expr::Block(b) => {
                for s in &b.block.stmts {
                    self.stmt(s)?;
                }
                Ok(())
            }
            other => {
                // expression statement evaluated for effect (e.g. `self.update(b);`)
                let _ = self.expr(other)?;
                Ok(())
            }
        }
    }

    fn assign(&mut self, lhs: &Expr, v: String) -> R<()> {
        match lhs {
            Expr::Path(p) if p.path.segments.len() == 1 => {
                self.emit(format!("{} := {v}", path_last(&p.path)));
                Ok(())
            }
            Expr::Field(f) => {
                if let (Expr::Path(p), Member::Named(n)) = (&*f.base, &f.member) {
                    if p.path.is_ident("self") {
                        self.emit(format!("self := {{ self with {n} := {v} }}"));
                        return Ok(());
                    }
                }
                Err("assignment to a nested place".into())
            }
            Expr::Unary(u) if matches!(u.op, UnOp::Deref(_)) => self.assign(&u.expr, v),
            _ => Err("assignment target".into()),
        }
    }

    fn wrap_ret(&self, v: String) -> String {
        v
    }
}

fn is_assign_op(op: &BinOp) -> bool {
    use BinOp::*;
    matches!(op, AddAssign(_) | SubAssign(_) | MulAssign(_) | BitAndAssign(_) | BitOrAssign(_) | BitXorAssign(_) | ShlAssign(_) | ShrAssign(_) | DivAssign(_) | RemAssign(_))
}

fn tokens_hash(ts: &proc_macro2::TokenStream) -> String {
    let s = ts.to_string();
    let mut h: u64 = 0xcbf29ce484222325;
    for b in s.bytes() {
        h ^= b as u64;
        h = h.wrapping_mul(0x100000001b3);
    }
    format!("{h:016x}")
}

struct FileOut {
    module: String,
    imports: Vec<String>,
    body: String,
}

fn translate_fn(reg: &Registry, self_ty: Option<&str>, sig: &Signature, block: &Block, lean_name: &str) -> R<String> {
    let mut tr = Tr { reg, self_ty: self_ty.map(|s| s.to_string()), tmp: 0, lines: vec![], indent: 1, ret_ty: None, hint: None };
    if !sig.generics.params.is_empty() {
        return Err("generic function".into());
    }
    let mut params = vec![];
    let mut mut_self = false;
    let mut has_self = false;
    for a in &sig.inputs {
        match a {
            FnArg::Receiver(r) => {
                has_self = true;
                mut_self = r.mutability.is_some() && r.reference.is_some();
                params.push(format!("(self : Gen.{})", self_ty.ok_or("self outside impl")?));
            }
            FnArg::Typed(t) => {
                let n = match &*t.pat {
                    Pat::Ident(id) => id.ident.to_string(),
                    _ => return Err("parameter pattern".into()),
                };
                params.push(format!("({n} : {})", tr.ty(&t.ty)?));
            }
        }
    }
    let _ = has_self;
    let ret = match &sig.output {
        ReturnType::Default => "Unit".to_string(),
        ReturnType::Type(_, t) => tr.ty(t)?,
    };
    let full_ret = if mut_self {
        let st = format!("Gen.{}", self_ty.unwrap());
        if ret == "Unit" { st } else { format!("({ret} × {st})") }
    } else {
        ret.clone()
    };
    tr.ret_ty = Some(ret.clone());
    if mut_self {
        tr.emit("let mut self := self".into());
    }
    tr.hint = Some(ret.clone());
    let v = tr.block_value(block)?;
    tr.hint = None;
    let fin = if mut_self {
        if ret == "Unit" { "self".to_string() } else { format!("({v}, self)") }
    } else {
        v
    };
    tr.emit(format!("pure {fin}"));
    let mut s = String::new();
    writeln!(s, "def {lean_name} {} : Option {full_ret} := do", params.join(" ")).unwrap();
    for l in tr.lines {
        writeln!(s, "{l}").unwrap();
    }
    Ok(s)
}

fn const_expr(reg: &Registry, e: &Expr) -> R<String> {
    // constant expressions: literals, casts of MAX constants, other consts, arithmetic on them
    match e {
        Expr::Lit(ExprLit { lit: Lit::Int(i), .. }) => Ok(lit_str(i).0),
        Expr::Cast(c) => const_expr(reg, &c.expr),
        Expr::Paren(p) => const_expr(reg, &p.expr),
        Expr::Path(p) => {
            let s = quote::quote!(#p).to_string().replace(' ', "");
            match s.as_str() {
                "u32::MAX" | "::std::u32::MAX" | "std::u32::MAX" => Ok("4294967295".into()),
                "u16::MAX" | "::std::u16::MAX" | "std::u16::MAX" => Ok("65535".into()),
                "u64::MAX" => Ok("18446744073709551615".into()),
                _ => {
                    let n = path_last(&p.path);
                    if reg.consts.contains(&n) { Ok(format!("Gen.{n}")) } else { Err(format!("constant path {s}")) }
                }
            }
        }
        Expr::Binary(b) => {
            let l = const_expr(reg, &b.left)?;
            let r = const_expr(reg, &b.right)?;
            let op = match b.op {
                BinOp::Add(_) => "+",
                BinOp::Sub(_) => "-",
                BinOp::Mul(_) => "*",
                _ => return Err("constant operator".into()),
            };
            Ok(format!("({l} {op} {r})"))
        }
        _ => Err("constant expression".into()),
    }
}

fn main() {
    let args: Vec<String> = std::env::args().collect();
    if args.len() < 4 {
        eprintln!("usage: rs2lean <src-dir> <out-dir> <items-file>");
        std::process::exit(2);
    }
    let (src, out, items) = (&args[1], &args[2], &args[3]);
    let spec = std::fs::read_to_string(items).expect("items file");
    // parse the items file
    struct FileSpec { rs: String, module: String, imports: Vec<String>, items: Vec<(String, String)> }
    let mut files: Vec<FileSpec> = vec![];
    for line in spec.lines() {
        let line = line.trim();
        if line.is_empty() || line.starts_with('#') { continue; }
        let w: Vec<&str> = line.split_whitespace().collect();
        if w[0] == "@file" {
            files.push(FileSpec { rs: w[1].into(), module: w[2].into(), imports: w[3..].iter().map(|s| s.to_string()).collect(), items: vec![] });
        } else {
            files.last_mut().expect("@file first").items.push((w[0].into(), w[1].into()));
        }
    }
    // pass 1: parse all files, build the registry from the *listed* items
    let mut asts: BTreeMap<String, syn::File> = BTreeMap::new();
    for f in &files {
        let text = std::fs::read_to_string(format!("{src}/{}", f.rs)).unwrap_or_else(|_| panic!("cannot read {}", f.rs));
        match syn::parse_file(&text) {
            Ok(a) => { asts.insert(f.rs.clone(), a); }
            Err(e) => { println!("untranslated {} (parse error: {e})", f.rs); }
        }
    }
    let mut reg = Registry::default();
    fn find_items<'a>(items: &'a [Item], out: &mut Vec<&'a Item>) {
        for it in items {
            match it {
                Item::Mod(m) if cfg_on(&m.attrs) => {
                    if m.ident != "test" && m.ident != "tests" {
                        if let Some((_, its)) = &m.content { find_items(its, out); }
                    }
                    out.push(it);
                }
                _ => out.push(it),
            }
        }
    }
    for f in &files {
        let ast = match asts.get(&f.rs) { Some(a) => a, None => continue };
        let mut all = vec![];
        find_items(&ast.items, &mut all);
        for (kind, name) in &f.items {
            match kind.as_str() {
                "const" => { reg.consts.insert(name.clone()); }
                "enum" => {
                    for it in &all {
                        if let Item::Enum(e) = it {
                            if e.ident == name && cfg_on(&e.attrs) {
                                let vs = e.variants.iter().filter(|v| cfg_on(&v.attrs)).map(|v| (v.ident.to_string(), !matches!(v.fields, Fields::Unit))).collect();
                                reg.enums.insert(name.clone(), vs);
                            }
                        }
                    }
                }
                "struct" => { reg.structs.insert(name.clone()); }
                "fn" => {
                    if let Some((ty, m)) = name.split_once("::") {
                        for it in &all {
                            if let Item::Impl(im) = it {
                                if im.trait_.is_none() && cfg_on(&im.attrs) {
                                    if let Type::Path(p) = &*im.self_ty {
                                        if path_last(&p.path) == ty {
                                            for ii in &im.items {
                                                if let ImplItem::Fn(f) = ii {
                                                    if f.sig.ident == m && cfg_on(&f.attrs) {
                                                        let recv = f.sig.inputs.iter().find_map(|a| if let FnArg::Receiver(r) = a { Some(r) } else { None });
                                                        reg.methods.insert(name.clone(), MethodInfo {
                                                            has_self: recv.is_some(),
                                                            mut_self: recv.map(|r| r.mutability.is_some() && r.reference.is_some()).unwrap_or(false),
                                                            unit_ret: matches!(f.sig.output, ReturnType::Default),
                                                        });
                                                    }
                                                }
                                            }
                                        }
                                    }
                                }
                            }
                        }
                    } else {
                        reg.fns.insert(name.clone());
                    }
                }
                _ => {}
            }
        }
    }
    // pass 2: emit
    std::fs::create_dir_all(out).unwrap();
    for f in &files {
        let ast = match asts.get(&f.rs) { Some(a) => a, None => continue };
        let mut all = vec![];
        find_items(&ast.items, &mut all);
        let mut fo = FileOut { module: f.module.clone(), imports: f.imports.clone(), body: String::new() };
        for (kind, name) in &f.items {
            let r: R<(String, String, usize, usize)> = (|| {
                match kind.as_str() {
                    "const" => {
                        for it in &all {
                            let (ident, ty, expr, attrs, span) = match it {
                                Item::Const(c) => (&c.ident, &*c.ty, &*c.expr, &c.attrs, c.span()),
                                Item::Static(s) => (&s.ident, &*s.ty, &*s.expr, &s.attrs, s.span()),
                                _ => continue,
                            };
                            if ident != name || !cfg_on(attrs) { continue; }
                            let tr = Tr { reg: &reg, self_ty: None, tmp: 0, lines: vec![], indent: 0, ret_ty: None, hint: None };
                            let t = tr.ty(ty)?;
                            let h = tokens_hash(&quote::quote!(#ty #expr));
                            let body = if let Expr::Array(a) = expr {
                                let elems: R<Vec<String>> = a.elems.iter().map(|e| const_expr(&reg, e)).collect();
                                let elems = elems?;
                                let mut s = String::from("#[");
                                for (i, e) in elems.iter().enumerate() {
                                    if i > 0 { s += ", "; }
                                    if i % 8 == 0 { s += "\n  "; }
                                    s += e;
                                }
                                s += "]";
                                s
                            } else {
                                const_expr(&reg, expr)?
                            };
                            return Ok((format!("def Gen.{name} : {t} := {body}\n"), h, span.start().line, span.end().line));
                        }
                        Err("not found".into())
                    }
                    "enum" => {
                        for it in &all {
                            if let Item::Enum(e) = it {
                                if e.ident != name || !cfg_on(&e.attrs) { continue; }
                                let tr = Tr { reg: &reg, self_ty: Some(name.clone()), tmp: 0, lines: vec![], indent: 0, ret_ty: None, hint: None };
                                let mut s = format!("inductive Gen.{name} where\n");
                                let mut discr = vec![];
                                let mut next: u64 = 0;
                                let mut fieldless = true;
                                for v in e.variants.iter().filter(|v| cfg_on(&v.attrs)) {
                                    match &v.fields {
                                        Fields::Unit => {
                                            writeln!(s, "  | {}", v.ident).unwrap();
                                            if let Some((_, Expr::Lit(ExprLit { lit: Lit::Int(i), .. }))) = &v.discriminant {
                                                next = i.base10_parse::<u64>().map_err(|e| e.to_string())?;
                                            }
                                            discr.push((v.ident.to_string(), next));
                                            next += 1;
                                        }
                                        Fields::Unnamed(u) => {
                                            fieldless = false;
                                            let ts: R<Vec<String>> = u.unnamed.iter().map(|f| tr.ty(&f.ty)).collect();
                                            let ts = ts?;
                                            let binders: Vec<String> = ts.iter().enumerate().map(|(i, t)| format!("(a{i} : {t})")).collect();
                                            writeln!(s, "  | {} {}", v.ident, binders.join(" ")).unwrap();
                                        }
                                        Fields::Named(_) => return Err("enum variant with named fields".into()),
                                    }
                                }
                                s += "  deriving DecidableEq, Repr\n";
                                if fieldless {
                                    writeln!(s, "\ndef Gen.{name}.discr : Gen.{name} → UInt64").unwrap();
                                    for (v, d) in &discr { writeln!(s, "  | .{v} => {d}").unwrap(); }
                                    for t in ["UInt8", "UInt16", "UInt32", "UInt64"] {
                                        writeln!(s, "instance : Rs.As Gen.{name} {t} := ⟨fun x => Rs.as' {t} x.discr⟩").unwrap();
                                    }
                                }
                                let h = tokens_hash(&quote::quote!(#e));
                                return Ok((s, h, e.span().start().line, e.span().end().line));
                            }
                        }
                        Err("not found".into())
                    }
                    "struct" => {
                        for it in &all {
                            if let Item::Struct(st) = it {
                                if st.ident != name || !cfg_on(&st.attrs) { continue; }
                                let tr = Tr { reg: &reg, self_ty: Some(name.clone()), tmp: 0, lines: vec![], indent: 0, ret_ty: None, hint: None };
                                let mut s = format!("structure Gen.{name} where\n");
                                let mut dropped = vec![];
                                if let Fields::Named(n) = &st.fields {
                                    for f in &n.named {
                                        if !cfg_on(&f.attrs) { continue; }
                                        let id = f.ident.as_ref().unwrap();
                                        match tr.ty(&f.ty) {
                                            Ok(t) => writeln!(s, "  {id} : {t}").unwrap(),
                                            Err(_) => dropped.push(id.to_string()),
                                        }
                                    }
                                } else {
                                    return Err("tuple struct".into());
                                }
                                if !dropped.is_empty() {
                                    writeln!(s, "  -- fields of unsupported type dropped: {}", dropped.join(", ")).unwrap();
                                }
                                let h = tokens_hash(&quote::quote!(#st));
                                return Ok((s, h, st.span().start().line, st.span().end().line));
                            }
                        }
                        Err("not found".into())
                    }
                    "fn" => {
                        if let Some((ty, m)) = name.split_once("::") {
                            for it in &all {
                                if let Item::Impl(im) = it {
                                    if im.trait_.is_some() || !cfg_on(&im.attrs) { continue; }
                                    if let Type::Path(p) = &*im.self_ty {
                                        if path_last(&p.path) != ty { continue; }
                                        for ii in &im.items {
                                            if let ImplItem::Fn(f) = ii {
                                                if f.sig.ident == m && cfg_on(&f.attrs) {
                                                    let s = translate_fn(&reg, Some(ty), &f.sig, &f.block, &format!("Gen.{ty}.{m}"))?;
                                                    let h = tokens_hash(&quote::quote!(#f));
                                                    return Ok((s, h, f.span().start().line, f.span().end().line));
                                                }
                                            }
                                        }
                                    }
                                }
                            }
                            Err("not found".into())
                        } else {
                            for it in &all {
                                if let Item::Fn(f) = it {
                                    if f.sig.ident == name && cfg_on(&f.attrs) {
                                        let s = translate_fn(&reg, None, &f.sig, &f.block, &format!("Gen.{name}"))?;
                                        let h = tokens_hash(&quote::quote!(#f));
                                        return Ok((s, h, f.span().start().line, f.span().end().line));
                                    }
                                }
                            }
                            Err("not found".into())
                        }
                    }
                    k => Err(format!("unknown item kind {k}")),
                }
            })();
            match r {
                Ok((text, h, l0, l1)) => {
                    println!("translated {}::{} lines {}-{}", f.rs, name, l0, l1);
                    writeln!(fo.body, "/- {} {} `{}` (lines {}-{}, token hash {}) -/", f.rs, kind, name, l0, l1, h).unwrap();
                    fo.body += &text;
                    fo.body.push('\n');
                }
                Err(e) => {
                    println!("untranslated {}::{} ({})", f.rs, name, e);
                    writeln!(fo.body, "-- UNTRANSLATED {} {} `{}`: {}\n", f.rs, kind, name, e).unwrap();
                }
            }
        }
        let mut text = String::new();
        writeln!(text, "import ZipVerif.Basic.Rs").unwrap();
        for i in &fo.imports { writeln!(text, "import ZipVerif.Gen.{i}").unwrap(); }
        writeln!(text, "/- GENERATED by rs2lean from /repo/src/{} on every check run. Do not edit. -/", f.rs).unwrap();
        writeln!(text, "set_option linter.unusedVariables false\nnamespace ZipVerif\n").unwrap();
        text += &fo.body;
        writeln!(text, "end ZipVerif").unwrap();
        let path = format!("{out}/{}.lean", fo.module);
        let old = std::fs::read_to_string(&path).unwrap_or_default();
        if old != text {
            std::fs::write(&path, text).unwrap();
        }
    }
}
