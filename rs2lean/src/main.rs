//! rs2lean: translate a small, explicitly listed subset of zip-rs/zip's Rust source into Lean 4
//! definitions (`ZipVerif/Gen/*.lean`).  Run on every check, so the Tie obligations
//! (`Gen.f = Model.f`) are re-checked against what the source says *now*.
//!
//!   rs2lean <src-dir> <out-dir> <items-file>
//!
//! Semantics of the subset (mirrored by `ZipVerif/Basic/Rs.lean`):
//!   * every translated function lives in `Option` (`none` = panic);
//!   * `+ - *` are checked on primitive integers and wrapping on `Wrapping<T>` (type class `Rs.Arith`);
//!   * `<< >>` take a literal amount and are checked against the bit width;
//!   * `as` is `Rs.as'` (truncate / zero-extend);  `usize` is `UInt64`;
//!   * `&mut self` methods return the updated `self` (paired with the result if there is one).
//!   * tier T3/T4: `fn f<T: Write [+ Seek]>(writer: &mut T, …) -> ZipResult<R>` and plain
//!     `-> ZipResult<R>` functions live in `Rs.W ω R` (outcome + log of what was handed to the sink);
//!     integer literals get their type from a light inference (casts, field types, callee, return
//!     type, look-ahead to the first typed use); `while` loops become `Rs.W.whileLoop` with fuel.
//!   * tier T5 (READ mode): `fn f<T: Read [+ Seek]>(reader: &mut T, …) -> ZipResult<R>` (the type
//!     parameter may belong to the enclosing `impl<R: Read + Seek>`) lives in the model's own I/O monad
//!     `ZipVerif.Model.M` (`Basic/RsM.lean`): `reader.read_uNN::<LittleEndian>()?` → `M.readUNN`,
//!     `read_exact(&mut buf)?` into a `vec![0; n]` → `M.readExact`, `seek(SeekFrom::Start/End/Current)?`
//!     → `M.seek`, `stream_position()?`, `?` → bind, `return Err(e)` → `M.throw`; a call without `?` is
//!     `M.attempt` (the `Result` as a value, matched with `Ok/Err(ZipError::V(_))/Err(e) if e.kind() == K`);
//!     `u64/usize` = `UInt64`, `i64` = `Int64`, all `+ - *` and unary `-` checked (`R.lift`, panic on
//!     `none`), `checked_*`/`saturating_sub`/`ok_or`/`and_then`; `while a <cmp> b` → `Rs.R.whileLoop`
//!     with fuel `|a - b| + 2`, body result `Rs.Step` (`break`, `return Ok(..)`); statement-level
//!     `match`/`if` that assign locals are one bind of the new values.
//!     `fn f(x: &mut Struct, …) -> ZipResult<R>` (P mode) lives in `Rs.P Struct (R × Struct)`: the
//!     value of `x` survives an `Err`; `io::Cursor::new(&bytes)` locals with `read_*`/`position`/`seek`.
//!     Item kinds `errfn` (helper whose body is `Err(ZipError::V(arg))`) and `aconst` (associated constant).
//! Anything outside the subset makes the *item* untranslated (reported on stdout, emitted as a
//! comment), never silently approximated.
use std::collections::{BTreeMap, HashMap, HashSet};
use std::fmt::Write as _;
use syn::spanned::Spanned;
use syn::*;

mod t6w;
mod t6r;
mod t6r2;
mod t6w2;
mod t6w3;
mod t6r3;
mod t6w4;
mod t6r4;
mod t6r4b;

const FEATURES: &[&str] = &["aes-crypto", "bzip2", "deflate", "time", "zstd"];

type R<T> = std::result::Result<T, String>;

mod t6l;

fn cfg_meta_true(m: &Meta) -> bool {
    match m {
        Meta::NameValue(nv) if nv.path.is_ident("feature") => {
            if let Expr::Lit(ExprLit { lit: Lit::Str(s), .. }) = &nv.value {
                FEATURES.contains(&s.value().as_str())
            } else {
                false
            }
        }
        Meta::List(l) => {
            let inner: Vec<Meta> = l
                .parse_args_with(punctuated::Punctuated::<Meta, Token![,]>::parse_terminated)
                .map(|p| p.into_iter().collect())
                .unwrap_or_default();
            if l.path.is_ident("any") {
                inner.iter().any(cfg_meta_true)
            } else if l.path.is_ident("all") {
                inner.iter().all(cfg_meta_true)
            } else if l.path.is_ident("not") {
                !inner.iter().all(cfg_meta_true)
            } else {
                false
            }
        }
        Meta::Path(p) => p.is_ident("unix"),
        _ => false,
    }
}

/// Are all `#[cfg(...)]` attributes satisfied under the default feature set?
fn cfg_on(attrs: &[Attribute]) -> bool {
    for a in attrs {
        if a.path().is_ident("cfg") {
            if let Meta::List(l) = &a.meta {
                if let Ok(m) = l.parse_args::<Meta>() {
                    if !cfg_meta_true(&m) {
                        return false;
                    }
                }
            }
        }
    }
    true
}

#[derive(Clone, PartialEq, Debug)]
enum Mode {
    /// `Option` (panic monad): tiers T1/T2
    Pure,
    /// `Rs.W ω`: functions returning `ZipResult`, with or without a `writer: &mut T`
    W,
    /// tier T5, `Model.M`: functions returning `ZipResult` that take a `reader: &mut T`, `T: Read [+ Seek]`
    R,
    /// tier T5, `Rs.P σ`: functions returning `ZipResult` that mutate a `x: &mut Struct` parameter (the
    /// parameter's value survives an `Err`): every failure site carries the current value
    P,
    /// tier T6 (`t6w.rs`), `Rs.S σ`: `&mut self` methods of a structure that owns its sink (state
    /// machine over the model's I/O monad); `self` is threaded like the P-mode parameter
    S,
}

#[derive(Clone, Debug)]
struct FnInfo {
    mode: Mode,
    /// index of the `writer: &mut T` parameter among the typed (non-self) parameters
    writer_idx: Option<usize>,
    seek: bool,
    /// Lean type of the value (`R` of `ZipResult<R>` in W mode)
    ret: Option<String>,
}

#[derive(Clone)]
struct MethodInfo {
    mut_self: bool,
    has_self: bool,
    unit_ret: bool,
    fi: FnInfo,
}

#[derive(Default)]
struct Registry {
    /// enum name → variants (name, has_payload)
    enums: HashMap<String, Vec<(String, bool)>>,
    structs: HashSet<String>,
    /// "Type::method" → info
    methods: HashMap<String, MethodInfo>,
    consts: HashSet<String>,
    fns: HashMap<String, FnInfo>,
    /// struct → field → Lean type (translatable fields only)
    struct_fields: HashMap<String, HashMap<String, String>>,
    /// (struct, field) pairs whose Rust type is `String` (the layer mode slices them as `str`)
    str_fields: HashSet<(String, String)>,
    const_ty: HashMap<String, String>,
    /// helper functions whose whole body is `Err(ZipError::V(arg))`: name → V
    errfns: HashMap<String, String>,
    /// associated constants `impl T { const C: Self = …; }`: "T::C" → ()
    aconsts: HashMap<String, ()>,
}

struct Tr<'a> {
    reg: &'a Registry,
    self_ty: Option<String>,
    tmp: usize,
    lines: Vec<String>,
    indent: usize,
    ret_ty: Option<String>,
    /// type annotation for the next `let t ← (if/match …)` binding (tail position / typed let)
    hint: Option<String>,
    mode: Mode,
    /// name of the `writer: &mut T` parameter
    writer: Option<String>,
    seekable: bool,
    /// Lean types of the variables in scope (light inference; missing = unknown)
    vars: HashMap<String, String>,
    mut_vars: HashSet<String>,
    /// local `[0; N]` arrays (used as scratch sinks)
    bufs: HashSet<String>,
    /// expected Lean type of the expression about to be translated (consumed by `expr`)
    expect: Option<String>,
    /// the expression about to be translated is the function's result (`Ok(v)` / `Err(e)`)
    tail: bool,
    in_loop: usize,
    /// statements following the one being translated (look-ahead for untyped literals)
    rest: Vec<Stmt>,
    /// items that failed to translate earlier in this run
    failed: &'a HashSet<String>,
    /// Lean name of the function being translated, binders shared by its auxiliary definitions
    lean_name: String,
    binders: String,
    /// auxiliary definitions (loop conditions and bodies), emitted before the function
    aux: Vec<String>,
    n_loops: usize,
    /// locals whose type the light inference could not determine
    untyped: HashSet<String>,
    /// READ mode: name of the `reader: &mut T` parameter
    reader: Option<String>,
    /// P mode: name of the `x: &mut Struct` parameter
    pstate: Option<String>,
    /// READ mode, inside a loop body: the loop-carried variables as a Lean term (for `break`)
    loop_state: Option<String>,
    /// depth of nested `(do …)` terms that are not in tail position (`return Ok(..)` is not allowed there)
    nontail_sub: usize,
    /// the statement about to be translated is already inside its own value block
    skip_tuple: bool,
    /// S mode (t6w.rs): aliases of parts of `self`
    s: t6w::SState,
    /// helper t6w2 (t6w2.rs): byte-function vocabulary switched on
    w2: t6w2::W2State,
    /// READ mode: the reader is an owned parameter (`mut reader: R`), callees get `&mut reader`
    reader_owned: bool,
    /// READ mode (t6r.rs): the function records `cell.store(v)` effects; name of the list variable
    rstores: Option<String>,
    /// READ mode (t6r.rs): the function calls external layer constructors (parameter `ext`)
    uses_ext: bool,
    /// READ mode (t6r2.rs): a method whose device is a field of `self` (`self.reader`): the field's name
    reader_self: Option<String>,
    /// READ mode (t6r2.rs): locals bound to `&mut self.reader`
    reader_aliases: HashSet<String>,
}

fn path_last(p: &Path) -> String {
    p.segments.last().map(|s| s.ident.to_string()).unwrap_or_default()
}

fn lit_str(l: &LitInt) -> (String, Option<String>) {
    let digits = l.to_string();
    let suffix = l.suffix().to_string();
    let body = digits.trim_end_matches(&suffix).replace('_', "");
    let body = if body.starts_with("0o") {
        // Lean has 0o literals too, keep
        body
    } else {
        body
    };
    (body, if suffix.is_empty() { None } else { Some(suffix) })
}

fn prim_ty(s: &str) -> Option<&'static str> {
    Some(match s {
        "u8" => "UInt8",
        "u16" => "UInt16",
        "u32" => "UInt32",
        "u64" | "usize" => "UInt64",
        "i64" => "Int64",
        "i32" => "Int32",
        "bool" => "Bool",
        "char" => "Char",
        _ => return None,
    })
}

fn int_ty(t: &str) -> bool {
    matches!(t, "UInt8" | "UInt16" | "UInt32" | "UInt64" | "Int64")
}

fn path_ident(e: &Expr) -> Option<String> {
    match e {
        Expr::Path(p) if p.path.segments.len() == 1 => Some(path_last(&p.path)),
        Expr::Paren(p) => path_ident(&p.expr),
        Expr::Group(g) => path_ident(&g.expr),
        Expr::Reference(r) => path_ident(&r.expr),
        Expr::Unary(u) if matches!(u.op, UnOp::Deref(_)) => path_ident(&u.expr),
        _ => None,
    }
}

fn untyped_int_lit(e: &Expr) -> bool {
    match e {
        Expr::Lit(ExprLit { lit: Lit::Int(i), .. }) => i.suffix().is_empty(),
        Expr::Paren(p) => untyped_int_lit(&p.expr),
        // `4 + 22 + 2 + 2`: a constant expression of untyped literals takes its type from its first typed use
        Expr::Binary(b) if matches!(b.op, BinOp::Add(_) | BinOp::Sub(_) | BinOp::Mul(_)) => untyped_int_lit(&b.left) && untyped_int_lit(&b.right),
        _ => false,
    }
}

/// `#[cfg]` attributes of a statement-level expression.
fn expr_attrs(e: &Expr) -> &[Attribute] {
    match e {
        Expr::Block(x) => &x.attrs,
        Expr::If(x) => &x.attrs,
        Expr::MethodCall(x) => &x.attrs,
        Expr::Call(x) => &x.attrs,
        Expr::Try(x) => &x.attrs,
        Expr::Assign(x) => &x.attrs,
        Expr::Binary(x) => &x.attrs,
        Expr::ForLoop(x) => &x.attrs,
        Expr::While(x) => &x.attrs,
        Expr::Return(x) => &x.attrs,
        Expr::Macro(x) => &x.attrs,
        Expr::Match(x) => &x.attrs,
        Expr::Lit(x) => &x.attrs,
        _ => &[],
    }
}

/// Variables assigned (or advanced by a read) inside a loop body.
struct AssignedVars<'r> {
    reg: &'r Registry,
    out: Vec<String>,
    declared: Vec<String>,
}
impl<'r, 'ast> syn::visit::Visit<'ast> for AssignedVars<'r> {
    fn visit_expr_assign(&mut self, a: &'ast ExprAssign) {
        if let Some(n) = path_ident(&a.left) {
            self.out.push(n);
        }
        if let Expr::Field(f) = &*a.left {
            if let Some(n) = path_ident(&f.base) {
                self.out.push(n);
            }
        }
        syn::visit::visit_expr_assign(self, a);
    }
    fn visit_expr_binary(&mut self, b: &'ast ExprBinary) {
        if is_assign_op(&b.op) {
            if let Some(n) = path_ident(&b.left) {
                self.out.push(n);
            }
        }
        syn::visit::visit_expr_binary(self, b);
    }
    fn visit_expr_method_call(&mut self, m: &'ast ExprMethodCall) {
        let name = m.method.to_string();
        let mutating = name.starts_with("read_") || name == "push" || name == "insert" || name == "extend_from_slice"
            || self.reg.methods.iter().any(|(k, i)| k.ends_with(&format!("::{name}")) && i.mut_self && i.fi.mode != Mode::S);
        if mutating {
            if let Some(n) = path_ident(&m.receiver) {
                self.out.push(n);
            }
        }
        syn::visit::visit_expr_method_call(self, m);
    }
    fn visit_local(&mut self, l: &'ast Local) {
        match &l.pat {
            Pat::Ident(id) => self.declared.push(id.ident.to_string()),
            Pat::Type(pt) => {
                if let Pat::Ident(id) = &*pt.pat {
                    self.declared.push(id.ident.to_string());
                }
            }
            _ => {}
        }
        syn::visit::visit_local(self, l);
    }
}

/// Look-ahead for `let x = <untyped literal>`: the first use of `x` that fixes its type.
struct FirstTypedUse<'r, 'a> {
    tr: &'r Tr<'a>,
    name: String,
    found: Option<String>,
}
impl<'r, 'a, 'ast> syn::visit::Visit<'ast> for FirstTypedUse<'r, 'a> {
    fn visit_expr_method_call(&mut self, m: &'ast ExprMethodCall) {
        if self.found.is_none() {
            if let Some(t) = write_int_ty(&m.method.to_string()) {
                if m.args.first().and_then(path_ident).as_deref() == Some(&self.name) {
                    self.found = Some(t.into());
                }
            }
        }
        syn::visit::visit_expr_method_call(self, m);
    }
    fn visit_expr_call(&mut self, c: &'ast ExprCall) {
        if self.found.is_none() {
            if let Expr::Path(p) = &*c.func {
                if path_last(&p.path) == "Ok" && c.args.first().and_then(path_ident).as_deref() == Some(&self.name) {
                    self.found = self.tr.ret_ty.clone().filter(|t| int_ty(t));
                }
            }
        }
        syn::visit::visit_expr_call(self, c);
    }
    fn visit_expr_binary(&mut self, b: &'ast ExprBinary) {
        if self.found.is_none() && !matches!(b.op, BinOp::Shl(_) | BinOp::Shr(_) | BinOp::ShlAssign(_) | BinOp::ShrAssign(_)) {
            let (l, r) = (path_ident(&b.left), path_ident(&b.right));
            if l.as_deref() == Some(&self.name) {
                self.found = self.tr.type_of(&b.right).filter(|t| int_ty(t));
            } else if r.as_deref() == Some(&self.name) {
                self.found = self.tr.type_of(&b.left).filter(|t| int_ty(t));
            }
        }
        syn::visit::visit_expr_binary(self, b);
    }
}

/// Single-segment identifiers mentioned in an expression.
struct UsedIdents {
    out: Vec<String>,
}
impl<'ast> syn::visit::Visit<'ast> for UsedIdents {
    fn visit_expr_path(&mut self, p: &'ast ExprPath) {
        if p.path.segments.len() == 1 {
            self.out.push(path_last(&p.path));
        }
    }
}

/// `break`, `continue`, a loop, or a `return` of anything but `Err(..)` / an error helper.
struct Escapes<'r> {
    reg: &'r Registry,
    found: bool,
}
impl<'r, 'ast> syn::visit::Visit<'ast> for Escapes<'r> {
    fn visit_expr(&mut self, e: &'ast Expr) {
        match e {
            Expr::Break(_) | Expr::Continue(_) | Expr::While(_) | Expr::Loop(_) | Expr::ForLoop(_) => self.found = true,
            Expr::Return(r) => {
                let ok = match r.expr.as_deref() {
                    Some(Expr::Call(c)) => match &*c.func {
                        Expr::Path(p) if p.path.segments.len() == 1 => {
                            let f = path_last(&p.path);
                            f == "Err" || self.reg.errfns.contains_key(&f)
                        }
                        _ => false,
                    },
                    _ => false,
                };
                if !ok {
                    self.found = true;
                }
            }
            _ => {}
        }
        syn::visit::visit_expr(self, e);
    }
}

/// `?`, `&mut`, macros, closures, assignments: anything that is not evidently a pure value.
struct HasEffect {
    found: bool,
}
impl<'ast> syn::visit::Visit<'ast> for HasEffect {
    fn visit_expr(&mut self, e: &'ast Expr) {
        match e {
            Expr::Try(_) | Expr::Macro(_) | Expr::Closure(_) | Expr::Assign(_) | Expr::MethodCall(_) | Expr::Return(_) | Expr::Break(_) => self.found = true,
            Expr::Reference(r) if r.mutability.is_some() => self.found = true,
            _ => {}
        }
        syn::visit::visit_expr(self, e);
    }
}

/// Is `&mut NAME.as_mut()` passed somewhere (the array is a byte sink)?
struct UsedAsSink {
    name: String,
    found: bool,
}
impl<'ast> syn::visit::Visit<'ast> for UsedAsSink {
    fn visit_expr_reference(&mut self, r: &'ast ExprReference) {
        if r.mutability.is_some() {
            if let Expr::MethodCall(m) = &*r.expr {
                if m.method == "as_mut" && path_ident(&m.receiver).as_deref() == Some(&self.name) {
                    self.found = true;
                }
            }
        }
        syn::visit::visit_expr_reference(self, r);
    }
}

fn write_int_ty(method: &str) -> Option<&'static str> {
    Some(match method {
        "write_u8" => "UInt8",
        "write_u16" => "UInt16",
        "write_u32" => "UInt32",
        "write_u64" => "UInt64",
        _ => return None,
    })
}
fn read_int_ty(method: &str) -> Option<&'static str> {
    Some(match method {
        "read_u8" => "UInt8",
        "read_u16" => "UInt16",
        "read_u32" => "UInt32",
        "read_u64" => "UInt64",
        _ => return None,
    })
}

/// `::<LittleEndian>` on a byteorder call
fn little_endian(m: &ExprMethodCall) -> bool {
    match &m.turbofish {
        Some(t) => t.args.len() == 1 && matches!(&t.args[0], GenericArgument::Type(Type::Path(p)) if path_last(&p.path) == "LittleEndian"),
        None => false,
    }
}

impl<'a> Tr<'a> {
    fn new(reg: &'a Registry, failed: &'a HashSet<String>, self_ty: Option<String>, indent: usize) -> Self {
        Tr {
            reg,
            self_ty,
            tmp: 0,
            lines: vec![],
            indent,
            ret_ty: None,
            hint: None,
            mode: Mode::Pure,
            writer: None,
            seekable: false,
            vars: HashMap::new(),
            mut_vars: HashSet::new(),
            bufs: HashSet::new(),
            expect: None,
            tail: false,
            in_loop: 0,
            rest: vec![],
            failed,
            lean_name: String::new(),
            binders: String::new(),
            aux: vec![],
            n_loops: 0,
            untyped: HashSet::new(),
            reader: None,
            pstate: None,
            loop_state: None,
            nontail_sub: 0,
            skip_tuple: false,
            s: t6w::SState::default(),
            w2: t6w2::W2State::default(),
            reader_owned: false,
            rstores: None,
            uses_ext: false,
            reader_self: None,
            reader_aliases: HashSet::new(),
        }
    }

    fn typed(&self) -> bool {
        self.mode != Mode::Pure
    }
    fn monadic(&self) -> bool {
        self.mode != Mode::Pure
    }
    /// prefix of the monad vocabulary
    fn mp(&self) -> &'static str {
        match self.mode {
            Mode::R => "Rs.R",
            Mode::P => "Rs.P",
            Mode::S => "Rs.S",
            _ => "Rs.W",
        }
    }
    /// P mode: the current value of the `&mut` parameter, passed to every failure site
    fn sfx(&self) -> String {
        match (&self.mode, &self.pstate) {
            (Mode::P, Some(p)) | (Mode::S, Some(p)) => format!(" {p}"),
            _ => String::new(),
        }
    }
    /// the mode has statement-level `match`, `break`, general `return`
    fn t5(&self) -> bool {
        matches!(self.mode, Mode::R | Mode::P | Mode::S)
    }

    /// Light type synthesis: the Lean type of a Rust expression when it is evident, else `None`.
    fn type_of(&self, e: &Expr) -> Option<String> {
        if let Some(t) = self.w2_type_of(e) {
            return Some(t);
        }
        if let Some(t) = self.t6r_type_of(e) {
            return Some(t);
        }
        if let Some(t) = self.t6r2_type_of(e) {
            return Some(t);
        }
        if self.mode == Mode::S {
            if let Some(t) = self.s_type_of(e) {
                return Some(t);
            }
        }
        match e {
            Expr::Paren(p) => self.type_of(&p.expr),
            Expr::Group(g) => self.type_of(&g.expr),
            Expr::Reference(r) => self.type_of(&r.expr),
            Expr::Try(t) => {
                let ty = self.type_of(&t.expr)?;
                match ty.strip_prefix("(Except ZErr ").and_then(|x| x.strip_suffix(')')) {
                    Some(x) => Some(x.to_string()),
                    None => Some(ty),
                }
            }
            Expr::Unary(u) => self.type_of(&u.expr),
            Expr::Lit(l) => match &l.lit {
                Lit::Int(i) => prim_ty(i.suffix()).map(|s| s.to_string()),
                Lit::Bool(_) => Some("Bool".into()),
                Lit::ByteStr(_) => Some("Bytes".into()),
                _ => None,
            },
            Expr::Path(p) => {
                let n = path_last(&p.path);
                if p.path.segments.len() == 1 {
                    if let Some(t) = self.vars.get(&n) {
                        return Some(t.clone());
                    }
                }
                if p.path.segments.len() >= 2 {
                    let first = p.path.segments[p.path.segments.len() - 2].ident.to_string();
                    let first = if first == "Self" { self.self_ty.clone().unwrap_or_default() } else { first };
                    if let Some(vs) = self.reg.enums.get(&first) {
                        if vs.iter().any(|(v, p)| *v == n && !*p) {
                            return Some(format!("Gen.{first}"));
                        }
                    }
                    if self.reg.aconsts.contains_key(&format!("{first}::{n}")) {
                        return Some(format!("Gen.{first}"));
                    }
                }
                if n == "MAX" && p.path.segments.len() >= 2 {
                    let first = p.path.segments[p.path.segments.len() - 2].ident.to_string();
                    if let Some(t) = prim_ty(&first) {
                        return Some(t.into());
                    }
                }
                self.reg.const_ty.get(&n).cloned()
            }
            Expr::Field(f) => {
                let b = self.type_of(&f.base)?;
                let st = b.strip_prefix("Gen.")?;
                match &f.member {
                    Member::Named(n) => self.reg.struct_fields.get(st)?.get(&n.to_string()).cloned(),
                    _ => None,
                }
            }
            Expr::Cast(c) => self.ty(&c.ty).ok(),
            Expr::Binary(b) => {
                use BinOp::*;
                match b.op {
                    Eq(_) | Ne(_) | Lt(_) | Le(_) | Gt(_) | Ge(_) | And(_) | Or(_) => Some("Bool".into()),
                    Shl(_) | Shr(_) => self.type_of(&b.left),
                    _ => self.type_of(&b.left).or_else(|| self.type_of(&b.right)),
                }
            }
            Expr::If(i) => {
                let t = i.then_branch.stmts.last().and_then(|s| if let Stmt::Expr(e, None) = s { self.type_of(e) } else { None });
                t.or_else(|| i.else_branch.as_ref().and_then(|(_, e)| self.type_of(e)))
            }
            Expr::Block(b) => b.block.stmts.last().and_then(|s| if let Stmt::Expr(e, None) = s { self.type_of(e) } else { None }),
            Expr::Index(ix) => {
                let t = self.type_of(&ix.expr)?;
                if let Expr::Range(_) = &*ix.index {
                    return Some(t);
                }
                if t == "Bytes" {
                    return Some("UInt8".into());
                }
                t.strip_prefix("(Array ").and_then(|x| x.strip_suffix(')')).map(|x| x.to_string())
            }
            Expr::MethodCall(m) => {
                let name = m.method.to_string();
                match name.as_str() {
                    "len" => Some("UInt64".into()),
                    "is_ascii" | "is_empty" | "is_some" | "is_none" | "any" | "contains" | "is_ok" | "is_err" => Some("Bool".into()),
                    "iter" | "clone" | "as_bytes" | "into_iter" | "as_slice" | "to_vec" | "as_mut" | "into_owned" | "saturating_sub" | "and_then" => self.type_of(&m.receiver),
                    "checked_sub" | "checked_add" | "checked_mul" => self.type_of(&m.receiver).filter(|t| int_ty(t)).map(|t| format!("(Option {t})")),
                    "ok_or" => self.type_of(&m.receiver).and_then(|t| t.strip_prefix("(Option ").and_then(|x| x.strip_suffix(')')).map(|x| x.to_string())),
                    "from_cp437" => Some("Bytes".into()),
                    "seek" | "stream_position" | "position" if self.t5() => Some("UInt64".into()),
                    "min" | "max" => self.type_of(&m.receiver).or_else(|| m.args.first().and_then(|a| self.type_of(a))),
                    _ => {
                        if let Some(t) = read_int_ty(&name) {
                            return Some(t.into());
                        }
                        self.method_owner(&m.receiver, &name).and_then(|(_, i)| i.fi.ret)
                    }
                }
            }
            Expr::Call(c) => {
                if let Expr::Path(p) = &*c.func {
                    let name = path_last(&p.path);
                    let wrap = |fi: &FnInfo| if matches!(fi.mode, Mode::R | Mode::P) { fi.ret.clone().map(|t| format!("(Except ZErr {t})")) } else { fi.ret.clone() };
                    if p.path.segments.len() == 1 {
                        if let Some(fi) = self.reg.fns.get(&name) {
                            return wrap(fi);
                        }
                        if name == "Some" && c.args.len() == 1 {
                            return self.type_of(&c.args[0]).map(|t| format!("(Option {t})"));
                        }
                    } else {
                        let first = p.path.segments[p.path.segments.len() - 2].ident.to_string();
                        let first = if first == "Self" { self.self_ty.clone().unwrap_or_default() } else { first };
                        if let Some(mi) = self.reg.methods.get(&format!("{first}::{name}")) {
                            return wrap(&mi.fi);
                        }
                        if first == "String" && name == "from_utf8_lossy" {
                            return Some("Bytes".into());
                        }
                        if first == "Cursor" && name == "new" {
                            return Some("Rs.Cursor".into());
                        }
                        if first == "AtomicU64" && name == "new" {
                            return Some("UInt64".into());
                        }
                    }
                }
                None
            }
            Expr::Tuple(t) if !t.elems.is_empty() => {
                let parts: Option<Vec<String>> = t.elems.iter().map(|e| self.type_of(e)).collect();
                parts.map(|p| format!("({})", p.join(" × ")))
            }
            Expr::Struct(st) => {
                let n = path_last(&st.path);
                let n = if n == "Self" { self.self_ty.clone()? } else { n };
                if self.reg.structs.contains(&n) { Some(format!("Gen.{n}")) } else { None }
            }
            Expr::Macro(m) if path_last(&m.mac.path) == "vec" => Some("Bytes".into()),
            Expr::Match(m) => m.arms.iter().find_map(|a| self.type_of(&a.body)),
            _ => None,
        }
    }

    /// Translate a sequence of statements, keeping the look-ahead window up to date.
    fn stmts(&mut self, ss: &[Stmt]) -> R<()> {
        for (i, s) in ss.iter().enumerate() {
            self.rest = ss[i + 1..].to_vec();
            self.stmt(s)?;
        }
        Ok(())
    }

    fn ty(&self, t: &Type) -> R<String> {
        match t {
            Type::Reference(r) => self.ty(&r.elem),
            Type::Paren(p) => self.ty(&p.elem),
            Type::Slice(s) => {
                let e = self.ty(&s.elem)?;
                if e == "UInt8" { Ok("Bytes".into()) } else { Err(format!("slice of {e}")) }
            }
            Type::Array(a) => {
                let e = self.ty(&a.elem)?;
                Ok(format!("(Array {e})"))
            }
            Type::Tuple(t) => {
                if t.elems.is_empty() {
                    return Ok("Unit".into());
                }
                let parts: R<Vec<String>> = t.elems.iter().map(|e| self.ty(e)).collect();
                Ok(format!("({})", parts?.join(" × ")))
            }
            Type::Path(p) => {
                let seg = p.path.segments.last().ok_or("empty path")?;
                let name = seg.ident.to_string();
                if let Some(p) = prim_ty(&name) {
                    return Ok(p.into());
                }
                let args: Vec<&Type> = match &seg.arguments {
                    PathArguments::AngleBracketed(a) => a
                        .args
                        .iter()
                        .filter_map(|g| if let GenericArgument::Type(t) = g { Some(t) } else { None })
                        .collect(),
                    _ => vec![],
                };
                if self.mode == Mode::S {
                    if let Some(r) = t6w::s_ty(self, &name, &args) {
                        return r;
                    }
                }
                if let Some(r) = self.t6r2_ty(&name, &args) {
                    return r;
                }
                match name.as_str() {
                    "Self" => self.self_ty.clone().map(|s| format!("Gen.{s}")).ok_or("Self outside impl".into()),
                    "Wrapping" => Ok(format!("(Rs.Wrapping {})", self.ty(args[0])?)),
                    "Option" => Ok(format!("(Option {})", self.ty(args[0])?)),
                    "Result" => Ok(format!("(Except {} {})", self.ty(args[1])?, self.ty(args[0])?)),
                    "Vec" => {
                        let e = self.ty(args[0])?;
                        if e == "UInt8" { Ok("Bytes".into()) } else { Ok(format!("(Rs.Vec {e})")) }
                    }
                    "HashMap" if args.len() == 2 => Ok(format!("(Rs.HashMap {} {})", self.ty(args[0])?, self.ty(args[1])?)),
                    "Arc" if args.len() == 1 => self.ty(args[0]),
                    "Take" => Ok("Rs.Take".into()),
                    "InvalidPassword" => Ok("Rs.InvalidPassword".into()),
                    "ZipCryptoReaderValid" if self.reg.enums.contains_key("ZipCryptoValidator") => Ok("(Rs.ZcValid Gen.ZipCryptoValidator)".into()),
                    "AesReaderValid" if self.reg.enums.contains_key("AesMode") => Ok("(Rs.AesValid Gen.AesMode)".into()),
                    "String" | "str" => Ok("Bytes".into()),
                    // `types::AtomicU64` (a relaxed atomic cell): its value
                    "AtomicU64" => Ok("UInt64".into()),
                    n if self.reg.enums.contains_key(n) || self.reg.structs.contains(n) => Ok(format!("Gen.{n}")),
                    n => Err(format!("unsupported type {n}")),
                }
            }
            _ => Err("unsupported type form".into()),
        }
    }

    fn fresh(&mut self) -> String {
        self.tmp += 1;
        format!("t{}", self.tmp)
    }
    fn emit(&mut self, s: String) {
        let pad = "  ".repeat(self.indent);
        self.lines.push(format!("{pad}{s}"));
    }
    /// Bind the result of a panic-monad (`Option`) computation.
    fn bind_m(&mut self, rhs: String) -> String {
        let t = self.fresh();
        if self.monadic() {
            self.emit(format!("let {t} ← {}.lift ({rhs}){}", self.mp(), self.sfx()));
        } else {
            self.emit(format!("let {t} ← {rhs}"));
        }
        t
    }
    /// Bind the result of a computation in the current monad.
    fn bind_w(&mut self, rhs: String, ty: Option<String>) -> String {
        self.bind_typed(rhs, ty)
    }
    fn bind_typed(&mut self, rhs: String, ty: Option<String>) -> String {
        let t = self.fresh();
        match ty {
            Some(ty) => self.emit(format!("let {t} : {ty} ← {rhs}")),
            None => self.emit(format!("let {t} ← {rhs}")),
        }
        t
    }

    fn is_variant(&self, name: &str) -> Option<(String, bool)> {
        for (e, vs) in &self.reg.enums {
            for (v, p) in vs {
                if v == name {
                    return Some((e.clone(), *p));
                }
            }
        }
        None
    }

    /// Translate an expression to an atom (identifier / literal / parenthesised pure term),
    /// emitting `let` statements for monadic sub-steps.
    fn expr(&mut self, e: &Expr) -> R<String> {
        let exp = self.expect.take();
        let tail = std::mem::take(&mut self.tail);
        if self.mode == Mode::S {
            if let Some(v) = self.s_expr(e, &exp, tail)? {
                return Ok(v);
            }
        }
        if self.w2.active {
            if let Some(v) = self.w2_expr(e, &exp)? {
                return Ok(v);
            }
        }
        match e {
            Expr::Paren(p) => {
                self.expect = exp;
                self.tail = tail;
                self.expr(&p.expr)
            }
            Expr::Group(g) => {
                self.expect = exp;
                self.tail = tail;
                self.expr(&g.expr)
            }
            Expr::Reference(r) => {
                self.expect = exp;
                self.expr(&r.expr)
            }
            Expr::Unary(u) => match u.op {
                UnOp::Deref(_) => {
                    self.expect = exp;
                    self.expr(&u.expr)
                }
                UnOp::Not(_) => {
                    self.expect = exp;
                    let a = self.expr(&u.expr)?;
                    Ok(format!("(!{a})"))
                }
                UnOp::Neg(_) => {
                    let t = exp.clone().or_else(|| self.type_of(&u.expr));
                    if self.typed() && t.as_deref() == Some("Int64") {
                        self.expect = Some("Int64".into());
                        let a = self.expr(&u.expr)?;
                        Ok(self.bind_m(format!("Rs.checkedNeg {a}")))
                    } else {
                        Err("unary minus".into())
                    }
                }
                _ => Err("unary minus".into()),
            },
            Expr::Lit(l) => match &l.lit {
                Lit::Int(i) => {
                    let (b, suf) = lit_str(i);
                    match suf {
                        Some(s) => {
                            let t = prim_ty(&s).ok_or(format!("literal suffix {s}"))?;
                            Ok(format!("({b} : {t})"))
                        }
                        None => match exp {
                            Some(t) if self.typed() && int_ty(&t) => Ok(format!("({b} : {t})")),
                            _ => Ok(b),
                        },
                    }
                }
                Lit::Bool(b) => Ok(if b.value { "true".into() } else { "false".into() }),
                // b"..": the bytes
                Lit::ByteStr(bs) if self.typed() => {
                    let v: Vec<String> = bs.value().iter().map(|x| format!("0x{x:02x}")).collect();
                    Ok(format!("([{}] : Bytes)", v.join(", ")))
                }
                _ => Err("unsupported literal".into()),
            },
            Expr::Path(p) => {
                let name = path_last(&p.path);
                if p.path.segments.len() == 1 {
                    if self.vars.contains_key(&name) {
                        return Ok(name);
                    }
                    if self.reg.consts.contains(&name) {
                        return Ok(format!("Gen.{name}"));
                    }
                    if let Some((en, false)) = self.is_variant(&name) {
                        return Ok(format!("Gen.{en}.{name}"));
                    }
                    if name == "None" {
                        return Ok("none".into());
                    }
                    if name == "InvalidPassword" {
                        return Ok("Rs.InvalidPassword.mk".into());
                    }
                    return Ok(name);
                }
                // qualified path: module::CONST, Enum::Variant, Self::Variant
                let first = p.path.segments[p.path.segments.len() - 2].ident.to_string();
                if self.reg.consts.contains(&name) {
                    return Ok(format!("Gen.{name}"));
                }
                if first == "ZipError" && name == "FileNotFound" {
                    return Ok("Rs.ZipErr.FileNotFound".into());
                }
                let en = if first == "Self" { self.self_ty.clone().unwrap_or_default() } else { first };
                if let Some(vs) = self.reg.enums.get(&en) {
                    if vs.iter().any(|(v, _)| *v == name) {
                        return Ok(format!("Gen.{en}.{name}"));
                    }
                }
                if self.reg.aconsts.contains_key(&format!("{en}::{name}")) {
                    if self.failed.contains(&format!("{en}::{name}")) {
                        return Err(format!("uses the untranslated {en}::{name}"));
                    }
                    return Ok(format!("Gen.{en}.{name}"));
                }
                if self.typed() {
                    let s = quote::quote!(#p).to_string().replace(' ', "");
                    let s = s.trim_start_matches("::").trim_start_matches("std::");
                    match s {
                        "u8::MAX" => return Ok("(255 : UInt8)".into()),
                        "u16::MAX" => return Ok("(65535 : UInt16)".into()),
                        "u32::MAX" => return Ok("(4294967295 : UInt32)".into()),
                        "u64::MAX" | "usize::MAX" => return Ok("(18446744073709551615 : UInt64)".into()),
                        _ => {}
                    }
                }
                Err(format!("unknown path {}", quote::quote!(#p)))
            }
            Expr::Field(f) => {
                let b = self.expr(&f.base)?;
                match &f.member {
                    Member::Named(n) => Ok(format!("{b}.{n}")),
                    Member::Unnamed(i) if i.index == 0 => Ok(format!("{b}.val")),
                    _ => Err("tuple field".into()),
                }
            }
            Expr::Cast(c) => {
                let a = self.expr(&c.expr)?;
                let t = self.ty(&c.ty)?;
                // enum → integer casts use the generated discriminant function
                if let Expr::Field(_) | Expr::Path(_) = &*c.expr {
                    // cannot know statically; handled by the `As` instance for enums if generated
                }
                Ok(format!("(Rs.as' {t} {a})"))
            }
            Expr::Binary(b) => {
                self.expect = exp;
                self.binary(b)
            }
            Expr::If(i) => {
                self.expect = exp;
                self.tail = tail;
                self.if_expr(i)
            }
            Expr::Match(m) if self.t5() && t6r::match_escapes(self.reg, m) => self.t6r_match_elem(m, exp),
            Expr::Match(m) => {
                self.expect = exp;
                self.tail = tail;
                self.match_expr(m)
            }
            Expr::Block(b) => {
                // value block
                self.expect = exp;
                self.tail = tail;
                self.block_value(&b.block)
            }
            Expr::Try(t) => {
                self.expect = exp;
                self.try_expr(&t.expr)
            }
            Expr::Struct(s) if self.t6r_is_variant_struct(s) => self.t6r_variant_struct(s),
            Expr::Struct(s) => {
                let name = path_last(&s.path);
                let name = if name == "Self" { self.self_ty.clone().unwrap_or_default() } else { name };
                let mut fs = vec![];
                for f in &s.fields {
                    if let Member::Named(n) = &f.member {
                        // a field the generated structure does not have (unsupported type): its
                        // initialiser is dropped with it, provided it evidently has no effect
                        if self.typed() {
                            if let Some(m) = self.reg.struct_fields.get(&name) {
                                if !m.contains_key(&n.to_string()) {
                                    let mut u = UsedIdents { out: vec![] };
                                    syn::visit::Visit::visit_expr(&mut u, &f.expr);
                                    let mut eff = HasEffect { found: false };
                                    syn::visit::Visit::visit_expr(&mut eff, &f.expr);
                                    if self.reader_owned && matches!(&f.expr, Expr::Path(_)) && path_ident(&f.expr) == self.reader {
                                        // the owned reader is moved into the result: no effect
                                        continue;
                                    }
                                    if eff.found || u.out.iter().any(|x| Some(x) == self.reader.as_ref() || Some(x) == self.writer.as_ref() || self.mut_vars.contains(x)) {
                                        return Err(format!("initialiser of the dropped field `{n}` may have an effect"));
                                    }
                                    continue;
                                }
                            }
                        }
                        self.expect = self.reg.struct_fields.get(&name).and_then(|m| m.get(&n.to_string())).cloned();
                    }
                    let v = self.expr(&f.expr)?;
                    if let Member::Named(n) = &f.member {
                        fs.push(format!("{n} := {v}"));
                    }
                }
                if s.rest.is_some() {
                    return Err("struct update syntax".into());
                }
                Ok(format!("({{ {} }} : Gen.{name})", fs.join(", ")))
            }
            Expr::Tuple(t) => {
                if t.elems.is_empty() {
                    return Ok("()".into());
                }
                let parts: R<Vec<String>> = t.elems.iter().map(|e| self.expr(e)).collect();
                Ok(format!("({})", parts?.join(", ")))
            }
            Expr::Index(ix) => {
                let a = self.expr(&ix.expr)?;
                if let Expr::Range(r) = &*ix.index {
                    if self.type_of(&ix.expr).as_deref() != Some("Bytes") {
                        return Err("range index of a non-byte slice".into());
                    }
                    if !matches!(r.limits, RangeLimits::HalfOpen(_)) {
                        return Err("inclusive range index".into());
                    }
                    let lo = match &r.start {
                        Some(x) => {
                            self.expect = Some("UInt64".into());
                            Some(self.expr(x)?)
                        }
                        None => None,
                    };
                    let hi = match &r.end {
                        Some(x) => {
                            self.expect = Some("UInt64".into());
                            Some(self.expr(x)?)
                        }
                        None => None,
                    };
                    return Ok(match (lo, hi) {
                        (None, Some(h)) => self.bind_m(format!("Rs.sliceTo {a} {h}")),
                        (Some(l), None) => self.bind_m(format!("Rs.sliceFrom {a} {l}")),
                        (Some(l), Some(h)) => self.bind_m(format!("Rs.slice {a} {l} {h}")),
                        (None, None) => a,
                    });
                }
                self.expect = Some("UInt64".into());
                let i = self.expr(&ix.index)?;
                Ok(self.bind_m(format!("Rs.index {a} {i}")))
            }
            Expr::Call(c) => {
                self.expect = exp;
                self.tail = tail;
                self.call(c)
            }
            Expr::MethodCall(m) => {
                self.expect = exp;
                self.tail = tail;
                self.method_call(m)
            }
            Expr::Return(r) if self.monadic() => {
                // `return Err(..)` as the value of a match arm / block: the error propagates through the monad
                let inner = r.expr.as_deref().ok_or("return without a value")?;
                match self.err_action(inner)? {
                    Some(act) => Ok(self.bind_typed(act, exp)),
                    None => Err("return of something other than Err(..) in expression position".into()),
                }
            }
            Expr::Return(_) => Err("return in expression position".into()),
            Expr::Macro(m) if path_last(&m.mac.path) == "vec" && self.typed() => {
                // vec![0; n]
                let rp: ExprRepeat = syn::parse2(proc_macro2::TokenStream::from_iter([proc_macro2::TokenTree::Group(proc_macro2::Group::new(proc_macro2::Delimiter::Bracket, m.mac.tokens.clone()))])).map_err(|_| "vec! other than vec![0; n]".to_string())?;
                let zero = matches!(&*rp.expr, Expr::Lit(ExprLit { lit: Lit::Int(i), .. }) if i.base10_parse::<u64>().ok() == Some(0));
                if !zero {
                    return Err("vec! with a non-zero element".into());
                }
                self.expect = Some("UInt64".into());
                let n = self.expr(&rp.len)?;
                Ok(format!("(Rs.vecZeros {n})"))
            }
            Expr::Macro(m) if path_last(&m.mac.path) == "matches" => self.t6r2_matches(m),
            // Pure mode: `panic!(..)` is the `none` of the panic monad
            Expr::Macro(m) if path_last(&m.mac.path) == "panic" && self.mode == Mode::Pure => Ok(self.bind_m("none".into())),
            Expr::Macro(m) => Err(format!("macro {}", path_last(&m.mac.path))),
            other => Err(format!("unsupported expression at line {}", other.span().start().line)),
        }
    }

    fn binary(&mut self, b: &ExprBinary) -> R<String> {
        use BinOp::*;
        let exp = self.expect.take();
        // operand type: from either operand, else (arithmetic / bitwise only) from the context
        let opnd = match b.op {
            And(_) | Or(_) => None,
            Eq(_) | Ne(_) | Lt(_) | Le(_) | Gt(_) | Ge(_) => self.type_of(&b.left).or_else(|| self.type_of(&b.right)),
            Shl(_) | Shr(_) => self.type_of(&b.left).or(exp.clone()),
            _ => self.type_of(&b.left).or_else(|| self.type_of(&b.right)).or(exp.clone()),
        };
        // short-circuit operators: rhs may only be evaluated conditionally
        if matches!(b.op, And(_) | Or(_)) {
            let l = self.expr(&b.left)?;
            let mark = self.lines.len();
            let saved_indent = self.indent;
            self.indent += 2;
            self.nontail_sub += 1;
            let r = self.expr(&b.right);
            self.nontail_sub -= 1;
            let r = r?;
            self.indent = saved_indent;
            if self.lines.len() == mark {
                return Ok(match b.op {
                    And(_) => format!("({l} && {r})"),
                    _ => format!("({l} || {r})"),
                });
            }
            // rhs has monadic steps: wrap them in a conditional do-block
            let inner: Vec<String> = self.lines.drain(mark..).collect();
            let t = self.fresh();
            let (cond, other) = match b.op {
                And(_) => (l.clone(), "pure false"),
                _ => (format!("(!{l})"), "pure true"),
            };
            self.emit(format!("let {t} ← (if {cond} then (do"));
            for l in inner {
                self.lines.push(l);
            }
            self.emit(format!("    pure {r}) else {other})"));
            return Ok(t);
        }
        self.expect = opnd.clone();
        let l = self.expr(&b.left)?;
        match b.op {
            Shl(_) | Shr(_) => {
                let n = match &*b.right {
                    Expr::Lit(ExprLit { lit: Lit::Int(i), .. }) => lit_str(i).0,
                    _ => return Err("shift by a non-literal".into()),
                };
                let f = if matches!(b.op, Shl(_)) { "shl" } else { "shr" };
                Ok(self.bind_m(format!("Rs.Arith.{f} {l} {n}")))
            }
            _ => {
                self.expect = opnd.clone();
                let r = self.expr(&b.right)?;
                Ok(match b.op {
                    Add(_) => self.bind_m(format!("Rs.Arith.add {l} {r}")),
                    Sub(_) => self.bind_m(format!("Rs.Arith.sub {l} {r}")),
                    Mul(_) => self.bind_m(format!("Rs.Arith.mul {l} {r}")),
                    Div(_) => self.bind_m(format!("Rs.Arith.div {l} {r}")),
                    Rem(_) => self.bind_m(format!("Rs.Arith.rem {l} {r}")),
                    BitAnd(_) => format!("({l} &&& {r})"),
                    BitOr(_) => format!("({l} ||| {r})"),
                    BitXor(_) => format!("({l} ^^^ {r})"),
                    Eq(_) => format!("({l} == {r})"),
                    Ne(_) => format!("({l} != {r})"),
                    Lt(_) => format!("(decide ({l} < {r}))"),
                    Le(_) => format!("(decide ({l} ≤ {r}))"),
                    Gt(_) => format!("(decide ({l} > {r}))"),
                    Ge(_) => format!("(decide ({l} ≥ {r}))"),
                    _ => return Err("unsupported binary operator".into()),
                })
            }
        }
    }

    /// Translate a block used as a value into a parenthesised `(do … pure v)` term bound to a temp.
    fn sub_do(&mut self, tail: bool, f: impl FnOnce(&mut Self) -> R<String>) -> R<String> {
        let mark = self.lines.len();
        let saved = self.indent;
        self.indent += 2;
        if !tail {
            self.nontail_sub += 1;
        }
        let v = f(self);
        if !tail {
            self.nontail_sub -= 1;
        }
        let v = v?;
        self.indent = saved;
        let inner: Vec<String> = self.lines.drain(mark..).collect();
        if inner.is_empty() {
            return Ok(format!("(pure {v})"));
        }
        let pad = "  ".repeat(saved + 2);
        let mut s = String::from("(do\n");
        for l in inner {
            s += &l;
            s.push('\n');
        }
        write!(s, "{pad}pure {v})").unwrap();
        Ok(s)
    }

    fn block_value(&mut self, b: &Block) -> R<String> {
        let exp = self.expect.take();
        let tail = std::mem::take(&mut self.tail);
        // statements switched off by `#[cfg(..)]` do not exist
        let live: Vec<Stmt> = b.stmts.iter().filter(|s| match s {
            Stmt::Expr(e, _) => cfg_on(expr_attrs(e)),
            Stmt::Local(l) => cfg_on(&l.attrs),
            _ => true,
        }).cloned().collect();
        let b = &Block { brace_token: b.brace_token, stmts: live };
        let n = b.stmts.len();
        for (i, s) in b.stmts.iter().enumerate() {
            if i + 1 == n {
                if let Stmt::Expr(e, None) = s {
                    if cfg_on(expr_attrs(e)) {
                        self.expect = exp;
                        self.tail = tail;
                        return self.expr(e);
                    }
                }
                // Pure mode: `…; return e;` at the end of the function body: `e` is the value
                if let (Stmt::Expr(Expr::Return(r), Some(_)), Mode::Pure, true) = (s, &self.mode, self.indent == 1 && self.in_loop == 0) {
                    if let Some(e) = &r.expr {
                        self.expect = exp;
                        return self.expr(e);
                    }
                }
                // `{ …; return Err(e); }` as a value: the failing action stands for the value
                if let Stmt::Expr(e @ Expr::Return(_), Some(_)) = s {
                    if self.t5() {
                        self.expect = exp;
                        return self.expr(e);
                    }
                }
            }
            let saved_hint = self.hint.take();
            self.rest = b.stmts[i + 1..].to_vec();
            self.stmt(s)?;
            self.hint = saved_hint;
        }
        Ok("()".into())
    }

    fn if_expr(&mut self, i: &ExprIf) -> R<String> {
        if let Expr::Let(_) = &*i.cond {
            return Err("if let".into());
        }
        let exp = self.expect.take();
        let tail = std::mem::take(&mut self.tail);
        let mut hint = self.hint.take();
        if self.typed() && hint.is_none() {
            hint = exp.clone().or_else(|| self.type_of(&Expr::If(i.clone())));
        }
        let exp = exp.or_else(|| hint.clone());
        let c = self.expr(&i.cond)?;
        let then_b = i.then_branch.clone();
        let (e1, e2) = (exp.clone(), exp.clone());
        let a = self.sub_do(tail, |s| {
            s.expect = e1;
            s.tail = tail;
            s.block_value(&then_b)
        })?;
        let b = match &i.else_branch {
            Some((_, e)) => {
                let e = (**e).clone();
                self.sub_do(tail, |s| {
                    s.expect = e2;
                    s.tail = tail;
                    match &e {
                        Expr::Block(b) => s.block_value(&b.block),
                        other => s.expr(other),
                    }
                })?
            }
            None => "(pure ())".into(),
        };
        Ok(self.bind_typed(format!("(if {c} then {a} else {b})"), hint))
    }

    fn pat_int_cond(&mut self, scrut: &str, p: &Pat) -> R<Option<String>> {
        // returns Some(condition) or None for wildcard / binding
        if let Some(c) = self.t6r2_const_pat(p) {
            return Ok(Some(format!("({scrut} == {c})")));
        }
        match p {
            Pat::Lit(l) => {
                if let Lit::Int(i) = &l.lit {
                    Ok(Some(format!("({scrut} == {})", lit_str(i).0)))
                } else {
                    Err("non-integer literal pattern".into())
                }
            }
            Pat::Range(r) => {
                let lo = match r.start.as_deref() {
                    Some(Expr::Lit(ExprLit { lit: Lit::Int(i), .. })) => lit_str(i).0,
                    _ => return Err("range pattern start".into()),
                };
                let hi = match r.end.as_deref() {
                    Some(Expr::Lit(ExprLit { lit: Lit::Int(i), .. })) => lit_str(i).0,
                    _ => return Err("range pattern end".into()),
                };
                match r.limits {
                    RangeLimits::Closed(_) => Ok(Some(format!("(decide ({lo} ≤ {scrut}) && decide ({scrut} ≤ {hi}))"))),
                    RangeLimits::HalfOpen(_) => Ok(Some(format!("(decide ({lo} ≤ {scrut}) && decide ({scrut} < {hi}))"))),
                }
            }
            Pat::Wild(_) => Ok(None),
            Pat::Ident(id) if self.is_variant(&id.ident.to_string()).is_none() => Ok(None),
            Pat::Or(o) => {
                let mut cs = vec![];
                for c in &o.cases {
                    match self.pat_int_cond(scrut, c)? {
                        Some(c) => cs.push(c),
                        None => return Ok(None),
                    }
                }
                Ok(Some(format!("({})", cs.join(" || "))))
            }
            _ => Err("unsupported integer pattern".into()),
        }
    }

    fn pat_lean(&self, p: &Pat) -> R<String> {
        match p {
            Pat::Wild(_) => Ok("_".into()),
            Pat::Lit(l) => match &l.lit {
                Lit::Bool(b) => Ok(if b.value { "true".into() } else { "false".into() }),
                _ => Err("literal in structural pattern".into()),
            },
            Pat::Ident(id) => {
                let n = id.ident.to_string();
                if let Some((en, _)) = self.is_variant(&n) {
                    Ok(format!("Gen.{en}.{n}"))
                } else if n == "None" {
                    Ok("none".into())
                } else {
                    Ok(n)
                }
            }
            Pat::Path(p) => {
                let n = path_last(&p.path);
                let first = if p.path.segments.len() >= 2 { p.path.segments[p.path.segments.len() - 2].ident.to_string() } else { String::new() };
                let en = if first == "Self" { self.self_ty.clone().unwrap_or_default() } else if first.is_empty() {
                    self.is_variant(&n).map(|x| x.0).unwrap_or_default()
                } else { first };
                Ok(format!("Gen.{en}.{n}"))
            }
            Pat::TupleStruct(ts) => {
                let n = path_last(&ts.path);
                let first = if ts.path.segments.len() >= 2 { ts.path.segments[ts.path.segments.len() - 2].ident.to_string() } else { String::new() };
                let inner: R<Vec<String>> = ts.elems.iter().map(|e| self.pat_lean(e)).collect();
                if n == "Some" {
                    return Ok(format!("(some {})", inner?.join(" ")));
                }
                if self.mode == Mode::R && first.is_empty() && ts.elems.len() == 1 {
                    if n == "Ok" {
                        // `Ok(..)`: the value is not bound
                        return Ok(format!("(Except.ok {})", if matches!(ts.elems[0], Pat::Rest(_)) { "_".to_string() } else { inner?.join(" ") }));
                    }
                    if n == "Err" {
                        return Ok(format!("(Except.error {})", inner?.join(" ")));
                    }
                }
                if self.mode == Mode::R && first == "ZipError" && ts.elems.len() == 1 && matches!(ts.elems[0], Pat::Wild(_) | Pat::Rest(_)) {
                    match n.as_str() {
                        "InvalidArchive" => return Ok("ZErr.invalidArchive".into()),
                        "FileNotFound" => return Ok("ZErr.fileNotFound".into()),
                        "Io" => return Ok("(ZErr.io _)".into()),
                        // `UnsupportedArchive(_)` covers two model values (the password-required message is one): not a pattern
                        _ => return Err(format!("pattern ZipError::{n}")),
                    }
                }
                let en = if first == "Self" { self.self_ty.clone().unwrap_or_default() } else if first.is_empty() {
                    self.is_variant(&n).map(|x| x.0).unwrap_or_default()
                } else { first };
                Ok(format!("(Gen.{en}.{n} {})", inner?.join(" ")))
            }
            Pat::Tuple(t) => {
                let inner: R<Vec<String>> = t.elems.iter().map(|e| self.pat_lean(e)).collect();
                Ok(format!("({})", inner?.join(", ")))
            }
            Pat::Reference(r) => self.pat_lean(&r.pat),
            Pat::Or(o) => {
                let inner: R<Vec<String>> = o.cases.iter().map(|e| self.pat_lean(e)).collect();
                Ok(inner?.join(" | "))
            }
            Pat::Rest(_) => Ok("..".into()),
            Pat::Struct(ps) => self.t6r2_pat_struct(ps),
            _ => Err("unsupported pattern".into()),
        }
    }

    /// READ mode: `Err(e) if e.kind() == io::ErrorKind::K` on an `io::Result` → the pattern of that error kind.
    fn guarded_io_pat(&self, a: &Arm) -> R<String> {
        let (_, g) = a.guard.as_ref().ok_or("no guard")?;
        if self.mode != Mode::R {
            return Err("match guard".into());
        }
        let var = match &a.pat {
            Pat::TupleStruct(ts) if path_last(&ts.path) == "Err" && ts.elems.len() == 1 => match &ts.elems[0] {
                Pat::Ident(id) => id.ident.to_string(),
                _ => return Err("match guard".into()),
            },
            _ => return Err("match guard".into()),
        };
        // the arm must not use the error value
        let mut u = UsedIdents { out: vec![] };
        syn::visit::Visit::visit_expr(&mut u, &a.body);
        if u.out.contains(&var) {
            return Err("guarded arm that uses the error value".into());
        }
        if let Expr::Binary(b) = &**g {
            if matches!(b.op, BinOp::Eq(_)) {
                for (l, r) in [(&*b.left, &*b.right), (&*b.right, &*b.left)] {
                    if let (Expr::MethodCall(mc), Expr::Path(kp)) = (l, r) {
                        if mc.method == "kind" && mc.args.is_empty() && path_ident(&mc.receiver).as_deref() == Some(&var) {
                            let ks: Vec<String> = kp.path.segments.iter().map(|s| s.ident.to_string()).collect();
                            if ks.len() >= 2 && ks[ks.len() - 2] == "ErrorKind" {
                                let k = match ks[ks.len() - 1].as_str() {
                                    "InvalidInput" => "invalidInput",
                                    "UnexpectedEof" => "unexpectedEof",
                                    "Other" => "other",
                                    "InvalidData" => "invalidData",
                                    "WriteZero" => "writeZero",
                                    "BrokenPipe" => "brokenPipe",
                                    other => return Err(format!("io::ErrorKind::{other}")),
                                };
                                return Ok(format!("(Except.error (ZErr.io IoKind.{k}))"));
                            }
                        }
                    }
                }
            }
        }
        Err("match guard".into())
    }

    fn match_expr(&mut self, m: &ExprMatch) -> R<String> {
        let arms: Vec<&Arm> = m.arms.iter().filter(|a| cfg_on(&a.attrs)).collect();
        for a in &arms {
            if a.guard.is_some() {
                self.guarded_io_pat(a)?;
            }
        }
        let integer = arms.iter().any(|a| matches!(a.pat, Pat::Lit(PatLit { lit: Lit::Int(_), .. }) | Pat::Range(_)));
        let exp = self.expect.take();
        let tail = std::mem::take(&mut self.tail);
        let mut hint = self.hint.take();
        if self.typed() && hint.is_none() {
            hint = exp.clone().or_else(|| self.type_of(&Expr::Match(m.clone())));
        }
        let exp = exp.or_else(|| hint.clone());
        let scrut_ty = self.type_of(&m.expr);
        let scrut = self.expr(&m.expr)?;
        if integer {
            // a nested do-block of statement-level `if c then return v`, last arm as the default
            let mark = self.lines.len();
            let saved = self.indent;
            self.indent += 2;
            let n = arms.len();
            for (k, a) in arms.iter().enumerate() {
                let body = (*a.body).clone();
                let bind = if let Pat::Ident(id) = &a.pat { Some(id.ident.to_string()) } else { None };
                let c = self.pat_int_cond(&scrut, &a.pat)?;
                // no default arm: rustc has checked exhaustiveness, so the last arm is the default
                let c = if k + 1 == n { None } else { c };
                match c {
                    Some(c) => {
                        self.emit(format!("if {c} then"));
                        self.indent += 1;
                        let v = self.expr(&body)?;
                        self.emit(format!("return {v}"));
                        self.indent -= 1;
                    }
                    None => {
                        if let Some(nm) = &bind {
                            self.emit(format!("let {nm} := {scrut}"));
                        }
                        let v = self.expr(&body)?;
                        self.emit(format!("pure {v}"));
                        break;
                    }
                }
            }
            self.indent = saved;
            let inner: Vec<String> = self.lines.drain(mark..).collect();
            let mut rhs = String::from("(do\n");
            for (k, l) in inner.iter().enumerate() {
                rhs += l;
                if k + 1 < inner.len() { rhs.push('\n'); }
            }
            rhs.push(')');
            return Ok(self.bind_typed(rhs, hint));
        }
        // structural match
        let mut s = format!("(match {scrut} with");
        let pad = "  ".repeat(self.indent + 1);
        for a in &arms {
            let p = if a.guard.is_some() { self.guarded_io_pat(a)? } else { self.pat_lean(&a.pat)? };
            let body = (*a.body).clone();
            let saved_vars = self.vars.clone();
            let saved_mut = self.mut_vars.clone();
            let saved_untyped = self.untyped.clone();
            if self.typed() && a.guard.is_none() {
                self.bind_pat_vars(&a.pat, scrut_ty.as_deref());
            }
            let e = exp.clone();
            let b = self.sub_do(tail, |s| {
                s.expect = e;
                s.tail = tail;
                s.expr(&body)
            });
            self.vars = saved_vars;
            self.mut_vars = saved_mut;
            self.untyped = saved_untyped;
            let b = b?;
            write!(s, "\n{pad}| {p} => {b}").unwrap();
        }
        s.push(')');
        Ok(self.bind_typed(s, hint))
    }

    fn call(&mut self, c: &ExprCall) -> R<String> {
        let p = match &*c.func {
            Expr::Path(p) => p,
            _ => return Err("call of a non-path".into()),
        };
        let name = path_last(&p.path);
        let exp = self.expect.take();
        let tail = std::mem::take(&mut self.tail);
        let first = if p.path.segments.len() >= 2 { p.path.segments[p.path.segments.len() - 2].ident.to_string() } else { String::new() };
        // the function's own result in W mode
        if self.monadic() && tail && first.is_empty() && c.args.len() == 1 {
            if name == "Ok" {
                self.expect = self.ret_ty.clone();
                return self.expr(&c.args[0]);
            }
            if name == "Err" || self.reg.errfns.contains_key(&name) {
                let act = self.err_action(&Expr::Call(c.clone()))?.ok_or("unsupported Err(..)")?;
                let ty = self.ret_ty.clone();
                return Ok(self.bind_w(act, ty));
            }
        }
        if first.is_empty() && self.reg.errfns.contains_key(&name) {
            return Err(format!("{name}(..) outside result position"));
        }
        // READ mode: a translated function that mutates a `&mut` local (P mode), called without `?`:
        // the local gets its final value whatever the outcome, the `Result` is a value
        if self.mode == Mode::R && !tail {
            let key = if first.is_empty() { name.clone() } else { format!("{first}::{name}") };
            let fi = if first.is_empty() { self.reg.fns.get(&name).cloned() } else { self.reg.methods.get(&key).filter(|m| !m.has_self).map(|m| m.fi.clone()) };
            if let Some(fi) = fi {
                if fi.mode == Mode::P {
                    if self.failed.contains(&key) {
                        return Err(format!("calls the untranslated {key}"));
                    }
                    let mut args = vec![];
                    let mut target: Option<String> = None;
                    for (k, a) in c.args.iter().enumerate() {
                        if Some(k) == fi.writer_idx {
                            if let Expr::Reference(r) = a {
                                if r.mutability.is_some() && matches!(&*r.expr, Expr::Path(_)) {
                                    if let Some(v) = path_ident(&r.expr) {
                                        if self.mut_vars.contains(&v) {
                                            args.push(v.clone());
                                            target = Some(v);
                                            continue;
                                        }
                                    }
                                }
                            }
                            return Err(format!("`&mut` argument of {key} is not a local `mut` variable"));
                        }
                        args.push(self.expr(a)?);
                    }
                    let target = target.ok_or("missing `&mut` argument")?;
                    let lean = if first.is_empty() { format!("Gen.{name}") } else { format!("Gen.{first}.{name}") };
                    let t1 = self.fresh();
                    let t2 = self.fresh();
                    self.emit(format!("let ({t1}, {t2}) ← Rs.R.runP ({lean} {})", args.join(" ")));
                    self.emit(format!("{target} := {t2}"));
                    return Ok(t1);
                }
            }
        }
        // READ mode: a translated READ-mode function; in result position its outcome is the
        // function's own, elsewhere (no `?`) the `Result` is a value
        if let Some((act, ty)) = self.r_callee(c)? {
            if let Some(label) = self.t6r2_store_label(c) {
                if tail {
                    return self.t6r2_bind_store(act, label);
                }
                return Err("call of a store-recording function without `?`".into());
            }
            if tail {
                return Ok(self.bind_typed(act, ty));
            }
            let ty = ty.map(|t| format!("(Except ZErr {t})"));
            return Ok(self.bind_typed(format!("Model.M.attempt ({act})"), ty));
        }
        // `ZipError` values: messages are dropped
        if first == "ZipError" {
            let msg_ok = |a: &Expr| matches!(a, Expr::Lit(ExprLit { lit: Lit::Str(_), .. })) || matches!(a, Expr::Macro(m) if path_last(&m.mac.path) == "format");
            match name.as_str() {
                "InvalidArchive" | "UnsupportedArchive" if c.args.len() == 1 && msg_ok(&c.args[0]) => {
                    return Ok(format!("Rs.ZipErr.{name}"));
                }
                // the one message that is part of the API: callers match on it
                "UnsupportedArchive" if c.args.len() == 1 && t6r2::is_password_required(&c.args[0]) => {
                    return Ok("Rs.ZipErr.PasswordRequired".into());
                }
                "Io" if c.args.len() == 1 => {
                    // io::Error::new(io::ErrorKind::K, message)
                    if let Expr::Call(ic) = &c.args[0] {
                        if let Expr::Path(ip) = &*ic.func {
                            let segs: Vec<String> = ip.path.segments.iter().map(|s| s.ident.to_string()).collect();
                            if segs.ends_with(&["Error".to_string(), "new".to_string()]) && ic.args.len() == 2 && msg_ok(&ic.args[1]) {
                                if let Expr::Path(kp) = &ic.args[0] {
                                    let ks: Vec<String> = kp.path.segments.iter().map(|s| s.ident.to_string()).collect();
                                    if ks.len() >= 2 && ks[ks.len() - 2] == "ErrorKind" {
                                        let k = &ks[ks.len() - 1];
                                        if ["Other", "InvalidData", "InvalidInput", "UnexpectedEof", "WriteZero", "BrokenPipe"].contains(&k.as_str()) {
                                            return Ok(format!("(Rs.ZipErr.Io Rs.IoKind.{k})"));
                                        }
                                        return Err(format!("io::ErrorKind::{k}"));
                                    }
                                }
                            }
                        }
                    }
                    return Err("ZipError::Io of an unsupported expression".into());
                }
                _ => return Err(format!("ZipError::{name} form")),
            }
        }
        // calls of translated functions: argument types are unknown here, W-mode callees need `?`
        if first.is_empty() {
            if let Some(fi) = self.reg.fns.get(&name) {
                if fi.mode != Mode::Pure {
                    return Err(format!("call of {name} without `?`"));
                }
            }
        }
        if let Some(r) = self.t6r_call(&first, &name, c, exp.clone())? {
            return Ok(r);
        }
        if let Some(r) = self.t6r2_call(&first, &name, c)? {
            return Ok(r);
        }
        let _ = exp;
        let args: R<Vec<String>> = c.args.iter().map(|a| self.expr(a)).collect();
        let args = args?;
        match (first.as_str(), name.as_str()) {
            (_, "Wrapping") => return Ok(format!("(Rs.Wrapping.mk {})", args[0])),
            (_, "Some") => return Ok(format!("(some {})", args[0])),
            ("AtomicU64", "new") if args.len() == 1 => return Ok(args[0].clone()),
            (_, "Ok") => return Ok(format!("(Except.ok {})", args[0])),
            (_, "Err") => return Ok(format!("(Except.error {})", args[0])),
            ("char", "from_u32") => return Ok(format!("(Rs.charFromU32 {})", args[0])),
            ("String", "from_utf8_lossy") if self.mode == Mode::R && args.len() == 1 => return Ok(format!("(Rs.fromUtf8Lossy {})", args[0])),
            ("Cursor", "new") if self.mode == Mode::P && args.len() == 1 && c.args.first().and_then(|a| self.type_of(a)).as_deref() == Some("Bytes") => return Ok(format!("(Rs.Cursor.new {})", args[0])),
            _ => {}
        }
        // enum variant constructor with payload
        let en = if first == "Self" { self.self_ty.clone().unwrap_or_default() } else { first.clone() };
        if let Some(vs) = self.reg.enums.get(&en) {
            if vs.iter().any(|(v, p)| *v == name && *p) {
                return Ok(format!("(Gen.{en}.{name} {})", args.join(" ")));
            }
        }
        if first.is_empty() {
            if let Some((en, true)) = self.is_variant(&name) {
                return Ok(format!("(Gen.{en}.{name} {})", args.join(" ")));
            }
        }
        // associated function Type::f(args)
        let key = format!("{en}::{name}");
        if let Some(mi) = self.reg.methods.get(&key) {
            if mi.fi.mode != Mode::Pure {
                return Err(format!("call of {key} without `?`"));
            }
            if self.failed.contains(&key) {
                return Err(format!("calls the untranslated {key}"));
            }
            let a = if args.is_empty() { String::new() } else { format!(" {}", args.join(" ")) };
            return Ok(self.bind_m(format!("Gen.{en}.{name}{a}")));
        }
        if first.is_empty() && self.reg.fns.contains_key(&name) {
            if self.failed.contains(&name) {
                return Err(format!("calls the untranslated {name}"));
            }
            return Ok(self.bind_m(format!("Gen.{name} {}", args.join(" "))));
        }
        Err(format!("unknown function {}", quote::quote!(#p)))
    }

    fn method_call(&mut self, m: &ExprMethodCall) -> R<String> {
        let name = m.method.to_string();
        let tail = std::mem::take(&mut self.tail);
        if tail && self.mode == Mode::R {
            if let Some(v) = self.t6r2_tail_method(m)? {
                return Ok(v);
            }
        }
        // result position: `r.map(|x| v)` on the outcome of a translated function
        if tail && self.monadic() && name == "map" && m.args.len() == 1 {
            if let Expr::Closure(cl) = &m.args[0] {
                if cl.inputs.len() == 1 {
                    let ty = self.type_of(&Expr::Try(ExprTry { attrs: vec![], expr: m.receiver.clone(), question_token: Default::default() }));
                    self.tail = true;
                    let x = self.expr(&m.receiver)?;
                    let pat = self.pat_lean(&cl.inputs[0])?;
                    self.emit(format!("let {pat} := {x}"));
                    self.bind_pat_vars(&cl.inputs[0], ty.as_deref());
                    self.expect = self.ret_ty.clone();
                    return self.expr(&cl.body);
                }
            }
            return Err("unsupported `.map` in result position".into());
        }
        // READ mode: `reader.op(..)` without `?`: the `io::Result` as a value
        if let Some((act, ty, assign)) = self.reader_op(m)? {
            if assign.is_some() {
                return Err("read_exact without `?`".into());
            }
            return Ok(self.bind_typed(format!("Model.M.attempt ({act})"), Some(format!("(Except ZErr {ty})"))));
        }
        // opt.and_then(|x| pure-option-expression)
        if name == "and_then" && m.args.len() == 1 {
            if let Expr::Closure(cl) = &m.args[0] {
                if cl.inputs.len() == 1 {
                    if let Pat::Ident(id) = &cl.inputs[0] {
                        let var = id.ident.to_string();
                        let rt = self.type_of(&m.receiver);
                        let inner = rt.as_deref().and_then(|t| t.strip_prefix("(Option ")).and_then(|x| x.strip_suffix(')')).map(|x| x.to_string()).ok_or("and_then on a value of unknown type")?;
                        let recv = self.expr(&m.receiver)?;
                        let mark = self.lines.len();
                        let saved = self.vars.insert(var.clone(), inner);
                        let body = self.expr(&cl.body);
                        match saved {
                            Some(t) => { self.vars.insert(var.clone(), t); }
                            None => { self.vars.remove(&var); }
                        }
                        let body = body?;
                        if self.lines.len() != mark {
                            return Err("and_then closure with effects".into());
                        }
                        return Ok(format!("(Option.bind {recv} (fun {var} => {body}))"));
                    }
                }
            }
            return Err("unsupported `.and_then`".into());
        }
        // (a..=b).contains(&x)
        if name == "contains" {
            if let Expr::Paren(p) = &*m.receiver {
                if let Expr::Range(r) = &*p.expr {
                    let x = self.expr(&m.args[0])?;
                    let lo = self.expr(r.start.as_ref().ok_or("open range")?)?;
                    let hi = self.expr(r.end.as_ref().ok_or("open range")?)?;
                    return Ok(match r.limits {
                        RangeLimits::Closed(_) => format!("(decide ({lo} ≤ {x}) && decide ({x} ≤ {hi}))"),
                        RangeLimits::HalfOpen(_) => format!("(decide ({lo} ≤ {x}) && decide ({x} < {hi}))"),
                    });
                }
            }
        }
        // ARRAY.iter().any(|&x| pure-condition)
        if name == "any" && m.args.len() == 1 {
            if let (Expr::MethodCall(it), Expr::Closure(cl)) = (&*m.receiver, &m.args[0]) {
                if it.method == "iter" && cl.inputs.len() == 1 {
                    let at = self.type_of(&it.receiver).unwrap_or_default();
                    let elem = at.strip_prefix("(Array ").and_then(|x| x.strip_suffix(')')).ok_or("`.any` on a non-array")?.to_string();
                    let var = match &cl.inputs[0] {
                        Pat::Ident(id) => id.ident.to_string(),
                        Pat::Reference(r) => match &*r.pat {
                            Pat::Ident(id) => id.ident.to_string(),
                            _ => return Err("closure parameter".into()),
                        },
                        _ => return Err("closure parameter".into()),
                    };
                    let arr = self.expr(&it.receiver)?;
                    let mark = self.lines.len();
                    let saved = self.vars.insert(var.clone(), elem);
                    let body = self.expr(&cl.body);
                    match saved {
                        Some(t) => { self.vars.insert(var.clone(), t); }
                        None => { self.vars.remove(&var); }
                    }
                    let body = body?;
                    if self.lines.len() != mark {
                        return Err("closure body with checked arithmetic or calls".into());
                    }
                    return Ok(format!("(Rs.arrayAny {arr} (fun {var} => {body}))"));
                }
            }
            return Err("unsupported `.any`".into());
        }
        let exp = self.expect.take();
        if let Some(r) = self.t6r_method(m)? {
            return Ok(r);
        }
        if let Some(r) = self.t6r2_unwrap(m)? {
            return Ok(r);
        }
        // integer.try_into() : the target type comes from the context
        if name == "try_into" && m.args.is_empty() {
            let t = exp.filter(|t| int_ty(t)).ok_or("try_into without a known integer target type")?;
            if !self.type_of(&m.receiver).map(|s| int_ty(&s)).unwrap_or(false) {
                return Err("try_into on a non-integer".into());
            }
            let recv = self.expr(&m.receiver)?;
            return Ok(format!("(Rs.tryInto {t} {recv})"));
        }
        // r.map_err(|_| e)
        if name == "map_err" && m.args.len() == 1 {
            if let Expr::Closure(cl) = &m.args[0] {
                if cl.inputs.len() == 1 && matches!(cl.inputs[0], Pat::Wild(_)) {
                    self.expect = exp;
                    let recv = self.expr(&m.receiver)?;
                    let mark = self.lines.len();
                    let e = self.expr(&cl.body)?;
                    if self.lines.len() != mark {
                        return Err("map_err closure with effects".into());
                    }
                    return Ok(format!("(Rs.mapErr {recv} {e})"));
                }
            }
            return Err("map_err with a closure that uses its argument".into());
        }
        if self.writer.is_some() && path_ident(&m.receiver) == self.writer {
            return Err(format!("writer.{name}() without `?`"));
        }
        let rt = self.type_of(&m.receiver);
        let same_ty = matches!(name.as_str(), "min" | "max" | "checked_sub" | "checked_add" | "checked_mul" | "saturating_sub");
        if same_ty {
            self.expect = rt.clone().or(exp.clone());
        }
        let recv = self.expr(&m.receiver)?;
        let mut args = vec![];
        for a in &m.args {
            if same_ty {
                self.expect = rt.clone().or(exp.clone());
            }
            args.push(self.expr(a)?);
        }
        if self.typed() && args.len() == 1 && rt.as_deref().map(int_ty).unwrap_or(false) {
            match name.as_str() {
                "checked_add" => return Ok(format!("(Rs.Arith.add {recv} {})", args[0])),
                "checked_sub" => return Ok(format!("(Rs.Arith.sub {recv} {})", args[0])),
                "checked_mul" => return Ok(format!("(Rs.Arith.mul {recv} {})", args[0])),
                "saturating_sub" if rt.as_deref() != Some("Int64") => return Ok(format!("(Rs.saturatingSub {recv} {})", args[0])),
                _ => {}
            }
        }
        match name.as_str() {
            "position" if args.is_empty() && rt.as_deref() == Some("Rs.Cursor") => return Ok(format!("{recv}.pos")),
            "into_owned" if self.mode == Mode::R => return Ok(recv),
            "from_cp437" if self.mode == Mode::R && args.is_empty() => return Ok(format!("(Rs.fromCp437 {recv})")),
            "is_ok" if self.mode == Mode::R && args.is_empty() => return Ok(format!("(Except.isOk {recv})")),
            "is_err" if self.mode == Mode::R && args.is_empty() => return Ok(format!("(!(Except.isOk {recv}))")),
            "iter" | "clone" | "as_bytes" | "into_iter" | "as_slice" | "to_vec" => return Ok(recv),
            "len" => return Ok(format!("(Rs.len {recv})")),
            "is_empty" if rt.as_deref() == Some("Bytes") => return Ok(format!("(Rs.isEmpty {recv})")),
            "is_ascii" => return Ok(format!("(Rs.isAscii {recv})")),
            "is_some" => return Ok(format!("(Option.isSome {recv})")),
            "is_none" => return Ok(format!("(Option.isNone {recv})")),
            "min" => return Ok(format!("(min {recv} {})", args[0])),
            "max" => return Ok(format!("(max {recv} {})", args[0])),
            "unwrap" => {
                // Option/Result unwrap: panic on none.  Only the Option form is supported.
                return Ok(self.bind_m(format!("{recv}")));
            }
            _ => {}
        }
        // method of a registered type, called on `self` or `self.field`
        let owner = self.method_owner(&m.receiver, &name);
        if let Some((ty, info)) = owner {
            if info.fi.mode != Mode::Pure {
                return Err(format!("call of {ty}::{name} without `?`"));
            }
            if self.failed.contains(&format!("{ty}::{name}")) {
                return Err(format!("calls the untranslated {ty}::{name}"));
            }
            let a = if args.is_empty() { String::new() } else { format!(" {}", args.join(" ")) };
            if info.mut_self {
                // the receiver must be a plain (mutable) variable
                if !recv.chars().all(|c| c.is_alphanumeric() || c == '_') {
                    return Err(format!("&mut self method {name} on a non-variable receiver"));
                }
                let (lo, lc) = if self.monadic() { (format!("{}.lift (", self.mp()), ")") } else { (String::new(), "") };
                if info.unit_ret {
                    self.emit(format!("{recv} ← {lo}Gen.{ty}.{name} {recv}{a}{lc}"));
                    return Ok("()".into());
                }
                let t = self.fresh();
                let t2 = self.fresh();
                self.emit(format!("let ({t}, {t2}) ← {lo}Gen.{ty}.{name} {recv}{a}{lc}"));
                self.emit(format!("{recv} := {t2}"));
                return Ok(t);
            }
            return Ok(self.bind_m(format!("Gen.{ty}.{name} {recv}{a}")));
        }
        Err(format!("unsupported method .{name}()"))
    }

    /// `inner?` in a W-mode function.
    fn try_expr(&mut self, inner: &Expr) -> R<String> {
        let exp = self.expect.take();
        if !self.monadic() {
            return Err("`?` outside a ZipResult function".into());
        }
        let inner = match inner {
            Expr::Paren(p) => &*p.expr,
            other => other,
        };
        if self.w2.active {
            if let Some(r) = self.w2_try(inner)? {
                return Ok(r);
            }
        }
        match inner {
            Expr::MethodCall(m) => {
                let name = m.method.to_string();
                let recv_id = path_ident(&m.receiver);
                if let Some(r) = self.t6r_ext_try(m)? {
                    return Ok(r);
                }
                if let Some(r) = self.t6r2_self_call(m)? {
                    return Ok(r);
                }
                // READ mode: reader.read_uNN::<LittleEndian>()? / read_exact(&mut buf)? / seek(..)? / stream_position()?
                if let Some((act, ty, assign)) = self.reader_op(m)? {
                    return Ok(match assign {
                        Some(v) => {
                            self.emit(format!("{v} ← {act}"));
                            "()".into()
                        }
                        None => self.bind_typed(act, Some(ty)),
                    });
                }
                // P mode: reads / relative seek on a local `io::Cursor` over a byte vector
                if self.mode == Mode::P && matches!(&*m.receiver, Expr::Path(_)) {
                    if let Some(v) = recv_id.clone() {
                        if self.vars.get(&v).map(|s| s.as_str()) == Some("Rs.Cursor") && self.mut_vars.contains(&v) {
                            let op: Option<String> = if let Some(_) = read_int_ty(&name) {
                                if name == "read_u8" {
                                    if m.turbofish.is_some() || !m.args.is_empty() {
                                        return Err("read_u8 with arguments".into());
                                    }
                                } else if !little_endian(m) || !m.args.is_empty() {
                                    return Err(format!("{name} without ::<LittleEndian>"));
                                }
                                Some(format!("Rs.Cursor.{name} {v}"))
                            } else if name == "seek" && m.args.len() == 1 {
                                let sf = self.seek_from(&m.args[0])?;
                                match sf.strip_prefix("(Model.SeekFrom.current (Int64.toInt ").and_then(|x| x.strip_suffix("))")) {
                                    Some(off) => Some(format!("Rs.Cursor.seek_current {v} {off}")),
                                    None => return Err("cursor seek other than SeekFrom::Current".into()),
                                }
                            } else {
                                None
                            };
                            let op = op.ok_or(format!("cursor.{name}()"))?;
                            let a = self.fresh();
                            let b = self.fresh();
                            self.emit(format!("let ({a}, {b}) ← Rs.P.ofExcept ({op}){}", self.sfx()));
                            self.emit(format!("{v} := {b}"));
                            return Ok(a);
                        }
                    }
                }
                // READ mode: opt.ok_or(err)?
                if self.mode == Mode::R && name == "ok_or" && m.args.len() == 1 {
                    let ty = self.type_of(&Expr::MethodCall(m.clone())).or(exp.clone());
                    let recv = self.expr(&m.receiver)?;
                    let mark = self.lines.len();
                    let e = self.expr(&m.args[0])?;
                    if self.lines.len() != mark {
                        return Err("ok_or argument with effects".into());
                    }
                    return Ok(self.bind_typed(format!("Rs.R.ok_or {recv} {e}"), ty));
                }
                // writer.write_uNN::<LittleEndian>(v)? / writer.write_all(bs)? / writer.seek(SeekFrom::Start(p))?
                if self.writer.is_some() && recv_id == self.writer && matches!(&*m.receiver, Expr::Path(_)) {
                    if let Some(t) = write_int_ty(&name) {
                        if name == "write_u8" {
                            return Err("write_u8".into());
                        }
                        if !little_endian(m) || m.args.len() != 1 {
                            return Err(format!("{name} without ::<LittleEndian>"));
                        }
                        self.expect = Some(t.into());
                        let a = self.expr(&m.args[0])?;
                        self.emit(format!("Rs.W.{name} {a}"));
                        return Ok("()".into());
                    }
                    if name == "write_all" && m.args.len() == 1 {
                        if self.type_of(&m.args[0]).as_deref() != Some("Bytes") {
                            return Err("write_all of an expression of unknown type".into());
                        }
                        let a = self.expr(&m.args[0])?;
                        self.emit(format!("Rs.W.write_all {a}"));
                        return Ok("()".into());
                    }
                    if name == "seek" && m.args.len() == 1 {
                        if !self.seekable {
                            return Err("seek on a writer that is not Seek".into());
                        }
                        if let Expr::Call(sc) = &m.args[0] {
                            if let Expr::Path(sp) = &*sc.func {
                                let segs: Vec<String> = sp.path.segments.iter().map(|s| s.ident.to_string()).collect();
                                if segs.ends_with(&["SeekFrom".to_string(), "Start".to_string()]) && sc.args.len() == 1 {
                                    self.expect = Some("UInt64".into());
                                    let a = self.expr(&sc.args[0])?;
                                    return Ok(self.bind_w(format!("Rs.W.seek_start {a}"), Some("UInt64".into())));
                                }
                            }
                        }
                        return Err("seek other than SeekFrom::Start".into());
                    }
                    return Err(format!("writer.{name}()"));
                }
                // slice_var.read_uNN::<LittleEndian>()?
                if let Some(t) = read_int_ty(&name) {
                    let v = recv_id.ok_or("read on a non-variable")?;
                    if !matches!(&*m.receiver, Expr::Path(_)) || self.vars.get(&v).map(|s| s.as_str()) != Some("Bytes") || !self.mut_vars.contains(&v) {
                        return Err(format!("{name} on something that is not a local `mut` byte slice"));
                    }
                    if !little_endian(m) || !m.args.is_empty() {
                        return Err(format!("{name} without ::<LittleEndian>"));
                    }
                    let a = self.fresh();
                    let b = self.fresh();
                    self.emit(format!("let ({a}, {b}) ← Rs.W.{name} {v}"));
                    self.emit(format!("{v} := {b}"));
                    let _ = t;
                    return Ok(a);
                }
                // pure `Result` values
                if matches!(name.as_str(), "map_err") {
                    self.expect = exp.clone();
                    let r = self.method_call(m)?;
                    return Ok(self.bind_w(format!("Rs.W.ofExcept {r}"), exp));
                }
                // a W-mode method of a registered type
                if let Some((ty, info)) = self.method_owner(&m.receiver, &name) {
                    if info.fi.mode == Mode::W {
                        return Err(format!("call of the writer method {ty}::{name}"));
                    }
                }
                Err(format!("`?` on .{name}()"))
            }
            Expr::Call(c) => {
                if let Some((act, ty)) = self.r_callee(c)? {
                    if let Some(label) = self.t6r2_store_label(c) {
                        return self.t6r2_bind_store(act, label);
                    }
                    return Ok(self.bind_typed(act, ty));
                }
                let p = match &*c.func {
                    Expr::Path(p) if p.path.segments.len() == 1 => p,
                    _ => return Err("`?` on a call of a non-local function".into()),
                };
                let name = path_last(&p.path);
                let fi = self.reg.fns.get(&name).cloned().ok_or(format!("`?` on the unknown function {name}"))?;
                if fi.mode != Mode::W || self.mode != Mode::W {
                    return Err(format!("`?` on {name}, which is not a writer-mode ZipResult function called from one"));
                }
                if self.failed.contains(&name) {
                    return Err(format!("calls the untranslated {name}"));
                }
                let mut args = vec![];
                let mut buf: Option<String> = None;
                for (k, a) in c.args.iter().enumerate() {
                    if Some(k) == fi.writer_idx {
                        if self.writer.is_some() && path_ident(a) == self.writer && matches!(a, Expr::Path(_)) {
                            if fi.seek && !self.seekable {
                                return Err(format!("{name} needs a Seek writer"));
                            }
                            continue;
                        }
                        // &mut X.as_mut() with X a local [0; N]
                        if let Expr::Reference(r) = a {
                            if r.mutability.is_some() {
                                if let Expr::MethodCall(am) = &*r.expr {
                                    if am.method == "as_mut" && am.args.is_empty() {
                                        if let Some(x) = path_ident(&am.receiver) {
                                            if self.bufs.contains(&x) && !fi.seek {
                                                buf = Some(x);
                                                continue;
                                            }
                                        }
                                    }
                                }
                            }
                        }
                        return Err(format!("writer argument of {name}"));
                    }
                    args.push(self.expr(a)?);
                }
                let a = if args.is_empty() { String::new() } else { format!(" {}", args.join(" ")) };
                match buf {
                    None => Ok(self.bind_w(format!("Gen.{name} (ω := ω){a}"), fi.ret.clone())),
                    Some(x) => {
                        let t1 = self.fresh();
                        let t2 = self.fresh();
                        self.emit(format!("let ({t1}, {t2}) ← Rs.W.intoBuf {x} (Gen.{name} (ω := Bytes){a})"));
                        self.emit(format!("{x} := {t2}"));
                        Ok(t1)
                    }
                }
            }
            _ => Err("unsupported operand of `?`".into()),
        }
    }


    /// `Err(e)` / `error_helper("..")` as a monadic action that fails; `None` for anything else.
    fn err_action(&mut self, inner: &Expr) -> R<Option<String>> {
        let c = match inner {
            Expr::Call(c) => c,
            Expr::Paren(p) => return self.err_action(&p.expr),
            _ => return Ok(None),
        };
        let p = match &*c.func {
            Expr::Path(p) if p.path.segments.len() == 1 => p,
            _ => return Ok(None),
        };
        let f = path_last(&p.path);
        if f == "Err" && c.args.len() == 1 {
            // `e` / `e.into()` with `e` an error value bound by a pattern (an `io::Error` is a `ZipError::Io`)
            let arg = match &c.args[0] {
                Expr::MethodCall(mc) if mc.method == "into" && mc.args.is_empty() && matches!(&*mc.receiver, Expr::Path(_)) => &*mc.receiver,
                other => other,
            };
            if let (Some(v), Expr::Path(_)) = (path_ident(arg), arg) {
                if self.vars.get(&v).map(|s| s.as_str()) == Some("ZErr") {
                    return Ok(Some(format!("Model.M.throw {v}")));
                }
            }
            let mark = self.lines.len();
            let e = self.expr(&c.args[0])?;
            if self.lines.len() != mark {
                return Err("error value with effects".into());
            }
            return Ok(Some(format!("{}.err {e}{}", self.mp(), self.sfx())));
        }
        if self.reg.errfns.contains_key(&f) {
            if self.failed.contains(&f) {
                return Err(format!("calls the untranslated {f}"));
            }
            return Ok(Some(format!("{}.err Gen.{f}{}", self.mp(), self.sfx())));
        }
        Ok(None)
    }

    /// `io::SeekFrom::X(v)` as a `Model.SeekFrom` term.
    fn seek_from(&mut self, a: &Expr) -> R<String> {
        if let Expr::Call(sc) = a {
            if let Expr::Path(sp) = &*sc.func {
                let segs: Vec<String> = sp.path.segments.iter().map(|s| s.ident.to_string()).collect();
                if segs.len() >= 2 && segs[segs.len() - 2] == "SeekFrom" && sc.args.len() == 1 {
                    match segs[segs.len() - 1].as_str() {
                        "Start" => {
                            self.expect = Some("UInt64".into());
                            let v = self.expr(&sc.args[0])?;
                            return Ok(format!("(Model.SeekFrom.start (UInt64.toNat {v}))"));
                        }
                        "End" => {
                            self.expect = Some("Int64".into());
                            let v = self.expr(&sc.args[0])?;
                            return Ok(format!("(Model.SeekFrom.endOff (Int64.toInt {v}))"));
                        }
                        "Current" => {
                            self.expect = Some("Int64".into());
                            let v = self.expr(&sc.args[0])?;
                            return Ok(format!("(Model.SeekFrom.current (Int64.toInt {v}))"));
                        }
                        _ => {}
                    }
                }
            }
        }
        Err("seek argument other than SeekFrom::Start/End/Current(..)".into())
    }

    /// READ mode: `reader.op(..)` on the function's reader as an `M` action:
    /// (action, Lean type of its value, local buffer the value is stored into).
    fn reader_op(&mut self, m: &ExprMethodCall) -> R<Option<(String, String, Option<String>)>> {
        if self.mode != Mode::R || self.reader.is_none() || path_ident(&m.receiver) != self.reader || !matches!(&*m.receiver, Expr::Path(_)) {
            return Ok(None);
        }
        let name = m.method.to_string();
        if let Some(t) = read_int_ty(&name) {
            if name == "read_u8" {
                if m.turbofish.is_some() || !m.args.is_empty() {
                    return Err("read_u8 with arguments".into());
                }
                return Ok(Some(("Model.M.readU8".into(), t.into(), None)));
            }
            if !little_endian(m) || !m.args.is_empty() {
                return Err(format!("{name} without ::<LittleEndian>"));
            }
            let f = match name.as_str() {
                "read_u16" => "readU16",
                "read_u32" => "readU32",
                _ => "readU64",
            };
            return Ok(Some((format!("Model.M.{f}"), t.into(), None)));
        }
        match name.as_str() {
            "read_exact" if m.args.len() == 1 => {
                if let Expr::Reference(r) = &m.args[0] {
                    if r.mutability.is_some() {
                        if let Expr::Path(_) = &*r.expr {
                            if let Some(v) = path_ident(&r.expr) {
                                if self.vars.get(&v).map(|s| s.as_str()) == Some("Bytes") && self.mut_vars.contains(&v) {
                                    return Ok(Some((format!("Rs.R.read_exact {v}"), "Bytes".into(), Some(v))));
                                }
                            }
                        }
                    }
                }
                Err("read_exact into something that is not a local `mut` byte vector".into())
            }
            "seek" if m.args.len() == 1 => {
                if !self.seekable {
                    return Err("seek on a reader that is not Seek".into());
                }
                let s = self.seek_from(&m.args[0])?;
                Ok(Some((format!("Rs.R.seek {s}"), "UInt64".into(), None)))
            }
            "stream_position" if m.args.is_empty() => {
                if !self.seekable {
                    return Err("stream_position on a reader that is not Seek".into());
                }
                Ok(Some(("Rs.R.stream_position".into(), "UInt64".into(), None)))
            }
            _ => Err(format!("reader.{name}()")),
        }
    }

    /// READ mode: a call of a translated READ-mode function as an `M` action with the Lean type of its value.
    fn r_callee(&mut self, c: &ExprCall) -> R<Option<(String, Option<String>)>> {
        if self.mode != Mode::R {
            return Ok(None);
        }
        let p = match &*c.func {
            Expr::Path(p) => p,
            _ => return Ok(None),
        };
        let name = path_last(&p.path);
        let (key, lean, fi) = if p.path.segments.len() == 1 {
            match self.reg.fns.get(&name) {
                Some(fi) => (name.clone(), format!("Gen.{name}"), fi.clone()),
                None => return Ok(None),
            }
        } else {
            let first = p.path.segments[p.path.segments.len() - 2].ident.to_string();
            let first = if first == "Self" { self.self_ty.clone().unwrap_or_default() } else { first };
            let key = format!("{first}::{name}");
            match self.reg.methods.get(&key) {
                Some(mi) if !mi.has_self => (key, format!("Gen.{first}.{name}"), mi.fi.clone()),
                _ => return Ok(None),
            }
        };
        if fi.mode != Mode::R {
            return Ok(None);
        }
        if self.failed.contains(&key) {
            return Err(format!("calls the untranslated {key}"));
        }
        let mut args = vec![];
        for (k, a) in c.args.iter().enumerate() {
            if Some(k) == fi.writer_idx {
                if !self.is_reader_arg(a) {
                    return Err(format!("reader argument of {key}"));
                }
                if fi.seek && !self.seekable {
                    return Err(format!("{key} needs a Seek reader"));
                }
                continue;
            }
            args.push(self.expr(a)?);
        }
        let a = if args.is_empty() { String::new() } else { format!(" {}", args.join(" ")) };
        let lean = if t6r::is_ext_fn(&lean) {
            self.uses_ext = true;
            format!("{lean} ext")
        } else {
            lean
        };
        Ok(Some((format!("{lean}{a}"), fi.ret.clone())))
    }

    /// Record the types of the variables a pattern binds, given the type of the matched value.
    fn bind_pat_vars(&mut self, p: &Pat, ty: Option<&str>) {
        match p {
            Pat::Ident(id) => {
                let n = id.ident.to_string();
                if n == "None" || self.is_variant(&n).is_some() {
                    return;
                }
                match ty {
                    Some(t) => {
                        self.untyped.remove(&n);
                        self.vars.insert(n.clone(), t.to_string());
                    }
                    None => {
                        self.vars.remove(&n);
                        self.untyped.insert(n.clone());
                    }
                }
                self.mut_vars.remove(&n);
            }
            Pat::Reference(r) => self.bind_pat_vars(&r.pat, ty),
            Pat::TupleStruct(ts) if ts.elems.len() == 1 => {
                let n = path_last(&ts.path);
                let inner: Option<String> = match n.as_str() {
                    "Some" => ty.and_then(|t| t.strip_prefix("(Option ")).and_then(|x| x.strip_suffix(')')).map(|x| x.to_string()),
                    "Ok" => ty.and_then(t6r2::split_except).map(|x| x.1),
                    "Err" => Some(ty.and_then(t6r2::split_except).map(|x| x.0).unwrap_or_else(|| "ZErr".into())),
                    _ => None,
                };
                self.bind_pat_vars(&ts.elems[0], inner.as_deref());
            }
            Pat::Tuple(t) => {
                let parts = ty.map(split_prod).unwrap_or_default();
                for (k, e) in t.elems.iter().enumerate() {
                    let pt = if parts.len() == t.elems.len() { Some(parts[k].clone()) } else { None };
                    self.bind_pat_vars(e, pt.as_deref());
                }
            }
            _ => {}
        }
    }

    fn method_owner(&self, recv: &Expr, name: &str) -> Option<(String, MethodInfo)> {
        // Resolve by unique method name among registered methods, preferring the current impl type.
        if let Some(st) = &self.self_ty {
            if let Expr::Path(p) = recv {
                if p.path.is_ident("self") {
                    if let Some(i) = self.reg.methods.get(&format!("{st}::{name}")) {
                        return Some((st.clone(), i.clone()));
                    }
                }
            }
        }
        let cands: Vec<(&String, &MethodInfo)> = self.reg.methods.iter().filter(|(k, i)| k.ends_with(&format!("::{name}")) && i.has_self && i.fi.mode != Mode::S).collect();
        if cands.len() == 1 {
            let ty = cands[0].0.split("::").next().unwrap().to_string();
            return Some((ty, cands[0].1.clone()));
        }
        None
    }

    fn stmt(&mut self, s: &Stmt) -> R<()> {
        if self.mode == Mode::S && self.s_stmt(s)? {
            return Ok(());
        }
        if self.w2.active && self.w2_stmt(s)? {
            return Ok(());
        }
        match s {
            Stmt::Local(l) => {
                if !cfg_on(&l.attrs) {
                    return Ok(());
                }
                if self.t6r2_reader_alias(l) {
                    return Ok(());
                }
                if let Pat::Tuple(tp) = &l.pat {
                    // let (a, b) = value;
                    if !self.typed() {
                        return Err("let pattern".into());
                    }
                    let init = l.init.as_ref().ok_or("let without initialiser")?;
                    if init.diverge.is_some() {
                        return Err("let-else".into());
                    }
                    for e in &tp.elems {
                        match e {
                            Pat::Ident(id) if id.mutability.is_none() && id.by_ref.is_none() => {}
                            Pat::Wild(_) => {}
                            _ => return Err("let pattern".into()),
                        }
                    }
                    let ty = self.type_of(&init.expr);
                    self.expect = ty.clone();
                    let v = self.expr(&init.expr)?;
                    let pat = self.pat_lean(&l.pat)?;
                    self.emit(format!("let {pat} := {v}"));
                    self.bind_pat_vars(&l.pat, ty.as_deref());
                    return Ok(());
                }
                let (name, mutable, ty) = match &l.pat {
                    Pat::Ident(id) => (id.ident.to_string(), id.mutability.is_some(), None),
                    Pat::Type(pt) => match &*pt.pat {
                        Pat::Ident(id) => (id.ident.to_string(), id.mutability.is_some(), Some(self.ty(&pt.ty)?)),
                        _ => return Err("let pattern".into()),
                    },
                    _ => return Err("let pattern".into()),
                };
                let init = l.init.as_ref().ok_or("let without initialiser")?;
                if init.diverge.is_some() {
                    return Err("let-else".into());
                }
                let m = if mutable { "mut " } else { "" };
                // `let mut x = [0; N];` used as a scratch sink
                if let Expr::Repeat(rp) = &*init.expr {
                    if !self.typed() {
                        return Err("array repeat expression".into());
                    }
                    let zero = matches!(&*rp.expr, Expr::Lit(ExprLit { lit: Lit::Int(i), .. }) if i.base10_parse::<u64>().ok() == Some(0));
                    let n = match &*rp.len {
                        Expr::Lit(ExprLit { lit: Lit::Int(i), .. }) => i.base10_parse::<u64>().map_err(|e| e.to_string())?,
                        _ => return Err("array length".into()),
                    };
                    // the element type is fixed by the use as `&mut x.as_mut()` (a byte sink)
                    let used_as_sink = {
                        let mut v = UsedAsSink { name: name.clone(), found: false };
                        for s in &self.rest {
                            syn::visit::Visit::visit_stmt(&mut v, s);
                        }
                        v.found
                    };
                    if !zero || !used_as_sink || !mutable || ty.is_some() {
                        return Err("array repeat expression other than a zeroed byte buffer".into());
                    }
                    self.emit(format!("let mut {name} : Bytes := Rs.zeros {n}"));
                    self.vars.insert(name.clone(), "Bytes".into());
                    self.mut_vars.insert(name.clone());
                    self.bufs.insert(name);
                    return Ok(());
                }
                if !self.typed() {
                    self.hint = ty.clone();
                    let v = self.expr(&init.expr)?;
                    self.hint = None;
                    match &ty {
                        Some(t) => self.emit(format!("let {m}{name} : {t} := {v}")),
                        None => self.emit(format!("let {m}{name} := {v}")),
                    }
                    match ty {
                        Some(t) => { self.vars.insert(name.clone(), t); }
                        None => { self.vars.remove(&name); }
                    }
                    if mutable { self.mut_vars.insert(name); } else { self.mut_vars.remove(&name); }
                    return Ok(());
                }
                // typed mode: declared type, else the evident type of the initialiser, else (for an
                // untyped literal) the first use that fixes it
                let mut t = ty.clone().or_else(|| self.type_of(&init.expr));
                if t.is_none() {
                    t = self.coll_local_type(&name, &init.expr);
                }
                if t.is_none() {
                    t = self.w2_local_type(&name, &init.expr);
                }
                if t.is_none() && untyped_int_lit(&init.expr) {
                    let rest = self.rest.clone();
                    let mut v = FirstTypedUse { tr: self, name: name.clone(), found: None };
                    for s in &rest {
                        syn::visit::Visit::visit_stmt(&mut v, s);
                    }
                    t = v.found;
                    if t.is_none() {
                        return Err(format!("cannot infer the type of `{name}`"));
                    }
                }
                self.hint = t.clone();
                self.expect = t.clone();
                let v = self.expr(&init.expr)?;
                self.hint = None;
                self.bufs.remove(&name);
                match &t {
                    Some(t) => self.emit(format!("let {m}{name} : {t} := {v}")),
                    None => self.emit(format!("let {m}{name} := {v}")),
                }
                match t {
                    Some(t) => {
                        self.untyped.remove(&name);
                        self.vars.insert(name.clone(), t);
                    }
                    None => {
                        self.untyped.insert(name.clone());
                        self.vars.remove(&name);
                    }
                }
                if mutable { self.mut_vars.insert(name); } else { self.mut_vars.remove(&name); }
                Ok(())
            }
            Stmt::Expr(e, _) => {
                if !cfg_on(expr_attrs(e)) {
                    return Ok(());
                }
                self.stmt_expr(e)
            }
            Stmt::Item(Item::Const(c)) if self.typed() => {
                if !cfg_on(&c.attrs) {
                    return Ok(());
                }
                let t = self.ty(&c.ty)?;
                let locals: HashSet<String> = self.vars.keys().filter(|k| !self.mut_vars.contains(*k)).cloned().collect();
                let v = const_expr_l(self.reg, &locals, &c.expr)?;
                let name = c.ident.to_string();
                self.emit(format!("let {name} : {t} := {v}"));
                self.vars.insert(name.clone(), t);
                self.mut_vars.remove(&name);
                Ok(())
            }
            Stmt::Item(Item::Use(_)) => Ok(()),
            Stmt::Item(_) => Err("nested item".into()),
            Stmt::Macro(m) => Err(format!("macro {}", path_last(&m.mac.path))),
        }
    }

    /// T5 modes: the local `mut` variables a statement-level `if` / `match` assigns, when the
    /// statement can be rendered as one bind of their new values (no `break`, no successful `return`,
    /// no loop inside).
    fn tuple_vars(&self, e: &Expr) -> Option<Vec<String>> {
        let mut esc = Escapes { reg: self.reg, found: false };
        syn::visit::Visit::visit_expr(&mut esc, e);
        if esc.found {
            return None;
        }
        let mut av = AssignedVars { reg: self.reg, out: vec![], declared: vec![] };
        syn::visit::Visit::visit_expr(&mut av, e);
        let mut vars: Vec<String> = vec![];
        for v in &av.out {
            if Some(v) == self.reader.as_ref() || Some(v) == self.writer.as_ref() {
                continue;
            }
            if av.declared.contains(v) {
                if self.vars.contains_key(v) || self.untyped.contains(v) {
                    return None;
                }
                continue;
            }
            if !self.mut_vars.contains(v) || !self.vars.contains_key(v) {
                return None;
            }
            if !vars.contains(v) {
                vars.push(v.clone());
            }
        }
        if vars.is_empty() { None } else { Some(vars) }
    }

    fn stmt_expr(&mut self, e: &Expr) -> R<()> {
        let skip = std::mem::take(&mut self.skip_tuple);
        if self.t5() && self.mode != Mode::S && !skip && matches!(e, Expr::If(_) | Expr::Match(_)) {
            if let Some(vars) = self.tuple_vars(e) {
                // one bind of the new values of the assigned variables
                let tys: Vec<String> = vars.iter().map(|v| self.vars.get(v).cloned().unwrap()).collect();
                let (tuple, ty) = if vars.len() == 1 { (vars[0].clone(), tys[0].clone()) } else { (format!("({})", vars.join(", ")), format!("({})", tys.join(" × "))) };
                let saved_vars = self.vars.clone();
                let saved_mut = self.mut_vars.clone();
                let saved_untyped = self.untyped.clone();
                let outer_rest = std::mem::take(&mut self.rest);
                let vs = vars.clone();
                let rhs = self.sub_do(false, |s| {
                    for v in &vs {
                        s.emit(format!("let mut {v} := {v}"));
                    }
                    s.skip_tuple = true;
                    s.stmt_expr(e)?;
                    Ok(tuple)
                });
                self.rest = outer_rest;
                self.vars = saved_vars;
                self.mut_vars = saved_mut;
                self.untyped = saved_untyped;
                let rhs = rhs?;
                let t = self.bind_typed(rhs, Some(ty));
                if vars.len() == 1 {
                    self.emit(format!("{} := {t}", vars[0]));
                } else {
                    for (k, v) in vars.iter().enumerate() {
                        let mut proj = String::new();
                        for _ in 0..k { proj += ".2"; }
                        if k + 1 < vars.len() { proj += ".1"; }
                        self.emit(format!("{v} := {t}{proj}"));
                    }
                }
                return Ok(());
            }
        }
        match e {
            Expr::Assign(a) if self.typed() && matches!(&*a.right, Expr::Match(m) if m.arms.iter().any(|arm| diverges(&arm.body))) => {
                if let Expr::Match(m) = &*a.right {
                    return self.stmt_match(Some(&a.left), m);
                }
                unreachable!()
            }
            Expr::Assign(a) => {
                self.expect = self.type_of(&a.left);
                if self.t5() {
                    self.hint = self.expect.clone();
                }
                let v = self.expr(&a.right);
                self.hint = None;
                let v = v?;
                self.assign(&a.left, v)
            }
            Expr::Binary(b) if is_assign_op(&b.op) => {
                let t = self.type_of(&b.left).or_else(|| self.type_of(&b.right));
                let l = self.expr(&b.left)?;
                self.expect = t;
                let r = self.expr(&b.right)?;
                use BinOp::*;
                let v = match b.op {
                    AddAssign(_) => self.bind_m(format!("Rs.Arith.add {l} {r}")),
                    SubAssign(_) => self.bind_m(format!("Rs.Arith.sub {l} {r}")),
                    MulAssign(_) => self.bind_m(format!("Rs.Arith.mul {l} {r}")),
                    BitAndAssign(_) => format!("({l} &&& {r})"),
                    BitOrAssign(_) => format!("({l} ||| {r})"),
                    BitXorAssign(_) => format!("({l} ^^^ {r})"),
                    _ => return Err("compound assignment".into()),
                };
                self.assign(&b.left, v)
            }
            Expr::Match(m) if self.t5() => self.stmt_match(None, m),
            Expr::Break(b) if self.t5() && self.in_loop > 0 => {
                if b.label.is_some() || b.expr.is_some() {
                    return Err("labelled break / break with a value".into());
                }
                if self.nontail_sub > 0 {
                    return Err("break inside a nested value block".into());
                }
                let st = self.loop_state.clone().ok_or("break outside a loop")?;
                self.emit(format!("return Rs.Step.brk {st}"));
                Ok(())
            }
            Expr::Return(r) if self.t5() => {
                let inner = r.expr.as_deref().ok_or("return without a value")?;
                // `return Err(e)` / `return error_helper(..)`: a failing action
                if let Some(act) = self.err_action(inner)? {
                    self.emit(act);
                    return Ok(());
                }
                if self.nontail_sub > 0 {
                    return Err("return inside a nested value block".into());
                }
                if !matches!(inner, Expr::Call(_) | Expr::MethodCall(_)) {
                    return Err("return of something other than Ok(..), Err(..) or a call".into());
                }
                self.tail = true;
                self.expect = self.ret_ty.clone();
                let v = self.expr(inner)?;
                if self.in_loop > 0 {
                    self.emit(format!("return Rs.Step.ret {v}"));
                } else if let (Mode::P | Mode::S, Some(p)) = (&self.mode, &self.pstate) {
                    self.emit(format!("return ({v}, {p})"));
                } else if let (Mode::R, Some(st)) = (&self.mode, &self.rstores) {
                    self.emit(format!("return ({v}, {st})"));
                } else {
                    self.emit(format!("return {v}"));
                }
                Ok(())
            }
            Expr::Return(r) if self.mode == Mode::W => {
                // `return Err(e)` short-circuits through the monad; `return Ok(v)` is a `return`
                let c = match r.expr.as_deref() {
                    Some(Expr::Call(c)) => c,
                    _ => return Err("return of something other than Ok(..)/Err(..)".into()),
                };
                let f = match &*c.func {
                    Expr::Path(p) if p.path.segments.len() == 1 && c.args.len() == 1 => path_last(&p.path),
                    _ => return Err("return of something other than Ok(..)/Err(..)".into()),
                };
                match f.as_str() {
                    "Err" => {
                        let e = self.expr(&c.args[0])?;
                        self.emit(format!("Rs.W.err {e}"));
                        Ok(())
                    }
                    "Ok" => {
                        if self.in_loop > 0 {
                            return Err("return Ok(..) inside a loop".into());
                        }
                        self.expect = self.ret_ty.clone();
                        let v = self.expr(&c.args[0])?;
                        self.emit(format!("return {v}"));
                        Ok(())
                    }
                    _ => Err("return of something other than Ok(..)/Err(..)".into()),
                }
            }
            Expr::Return(r) => {
                let v = match &r.expr {
                    Some(e) => self.expr(e)?,
                    None => "()".into(),
                };
                let v = self.wrap_ret(v);
                self.emit(format!("return {v}"));
                Ok(())
            }
            Expr::While(w) => self.while_loop(w),
            Expr::If(i) if i.else_branch.is_none() || true => {
                // statement-level if: branches are do-sequences (mutation and early return propagate)
                if let Expr::Let(l) = &*i.cond {
                    if self.t5() {
                        return self.t6r_if_let(i, l);
                    }
                    return Err("if let".into());
                }
                let c = self.expr(&i.cond)?;
                let head = self.lines.len();
                self.emit(format!("if {c} then"));
                self.indent += 1;
                let mark = self.lines.len();
                let outer_rest = std::mem::take(&mut self.rest);
                self.stmts(&i.then_branch.stmts)?;
                if self.lines.len() == mark || self.lines.last().map(|l| l.trim_start().starts_with("let ")).unwrap_or(false) {
                    self.emit("pure ()".into());
                }
                self.indent -= 1;
                // T5 modes: a guard `if c { return Err(e); }` is one action (the rest of the block is
                // not duplicated into both branches by the do-elaborator)
                if self.t5() && i.else_branch.is_none() && self.lines.len() == mark + 1 {
                    let act = self.lines[mark].trim_start().to_string();
                    if act.starts_with("Rs.R.err ") || act.starts_with("Rs.P.err ") || act.starts_with("Rs.S.err ") || act.starts_with("Model.M.throw ") {
                        self.lines.truncate(head);
                        self.emit(format!("(if {c} then {act} else pure ())"));
                        self.rest = outer_rest;
                        return Ok(());
                    }
                }
                if let Some((_, e)) = &i.else_branch {
                    self.emit("else".into());
                    self.indent += 1;
                    let mark = self.lines.len();
                    match &**e {
                        Expr::Block(b) => {
                            self.stmts(&b.block.stmts)?;
                        }
                        other => self.stmt_expr(other)?,
                    }
                    if self.lines.len() == mark || self.lines.last().map(|l| l.trim_start().starts_with("let ")).unwrap_or(false) {
                        self.emit("pure ()".into());
                    }
                    self.indent -= 1;
                }
                self.rest = outer_rest;
                Ok(())
            }
            Expr::ForLoop(f) if self.mode == Mode::R => self.t6r_for_range(f),
            Expr::ForLoop(f) => {
                let var = match &*f.pat {
                    Pat::Ident(id) => id.ident.to_string(),
                    _ => return Err("for pattern".into()),
                };
                let it = self.expr(&f.expr)?;
                self.emit(format!("for {var} in {it} do"));
                self.indent += 1;
                let mark = self.lines.len();
                let outer_rest = std::mem::take(&mut self.rest);
                self.stmts(&f.body.stmts)?;
                self.rest = outer_rest;
                if self.lines.len() == mark {
                    self.emit("pure ()".into());
                }
                self.indent -= 1;
                Ok(())
            }
            Expr::Block(b) => {
                let outer_rest = std::mem::take(&mut self.rest);
                self.stmts(&b.block.stmts)?;
                self.rest = outer_rest;
                Ok(())
            }
            other => {
                // expression statement evaluated for effect (e.g. `self.update(b);`)
                let _ = self.expr(other)?;
                Ok(())
            }
        }
    }

    /// Statement-level `match` (READ mode): arms are do-sequences, so assignments, `break` and
    /// `return` inside them act on the enclosing block.  With `lhs`, it is `lhs = match … { … }`.
    fn stmt_match(&mut self, lhs: Option<&Expr>, m: &ExprMatch) -> R<()> {
        let arms: Vec<&Arm> = m.arms.iter().filter(|a| cfg_on(&a.attrs)).collect();
        if arms.iter().any(|a| a.guard.is_some()) {
            return Err("match guard".into());
        }
        let scrut_ty = self.type_of(&m.expr);
        let lhs_ty = lhs.and_then(|l| self.type_of(l));
        let scrut = self.expr(&m.expr)?;
        if arms.iter().any(|a| matches!(a.pat, Pat::Lit(PatLit { lit: Lit::Int(_), .. }) | Pat::Range(_)) || self.t6r2_const_pat(&a.pat).is_some()) {
            // integer patterns: an if / else chain, the last arm is the default (rustc checks exhaustiveness)
            if lhs.is_some() {
                return Err("assignment from a statement-level match on integers".into());
            }
            let base_indent = self.indent;
            let n = arms.len();
            let mut r: R<()> = Ok(());
            for (k, a) in arms.iter().enumerate() {
                let c = match self.pat_int_cond(&scrut, &a.pat) {
                    Ok(c) => c,
                    Err(e) => { r = Err(e); break; }
                };
                let bind = if let Pat::Ident(id) = &a.pat { Some(id.ident.to_string()) } else { None };
                let last = k + 1 == n || c.is_none();
                if !last {
                    self.emit(format!("if {} then", c.unwrap()));
                    self.indent += 1;
                } else if let Some(nm) = &bind {
                    self.emit(format!("let {nm} := {scrut}"));
                    if let Some(t) = &scrut_ty { self.vars.insert(nm.clone(), t.clone()); }
                }
                let mark = self.lines.len();
                let outer_rest = std::mem::take(&mut self.rest);
                let rr: R<()> = match &*a.body {
                    Expr::Block(b) => self.stmts(&b.block.stmts),
                    other => self.stmt_expr(other),
                };
                self.rest = outer_rest;
                if self.lines.len() == mark || self.lines.last().map(|l| l.trim_start().starts_with("let ")).unwrap_or(false) {
                    self.emit("pure ()".into());
                }
                if let Err(e) = rr { r = Err(e); break; }
                if last {
                    break;
                }
                self.indent -= 1;
                self.emit("else".into());
                self.indent += 1;
            }
            self.indent = base_indent;
            return r;
        }
        self.emit(format!("match {scrut} with"));
        for a in &arms {
            let p = self.pat_lean(&a.pat)?;
            self.emit(format!("| {p} =>"));
            self.indent += 1;
            let saved_vars = self.vars.clone();
            let saved_mut = self.mut_vars.clone();
            let saved_untyped = self.untyped.clone();
            self.bind_pat_vars(&a.pat, scrut_ty.as_deref());
            let mark = self.lines.len();
            let outer_rest = std::mem::take(&mut self.rest);
            let r: R<()> = (|| {
                if diverges(&a.body) {
                    return self.stmt_expr(&a.body);
                }
                match lhs {
                    Some(l) => {
                        self.expect = lhs_ty.clone();
                        let v = self.expr(&a.body)?;
                        self.assign(l, v)
                    }
                    None => match &*a.body {
                        Expr::Block(b) => self.stmts(&b.block.stmts),
                        other => self.stmt_expr(other),
                    },
                }
            })();
            if self.lines.len() == mark || self.lines.last().map(|l| l.trim_start().starts_with("let ")).unwrap_or(false) {
                self.emit("pure ()".into());
            }
            self.rest = outer_rest;
            self.vars = saved_vars;
            self.mut_vars = saved_mut;
            self.untyped = saved_untyped;
            self.indent -= 1;
            r?;
        }
        Ok(())
    }

    /// READ mode: `while a <cmp> b { body }` → `Rs.R.whileLoop` over the loop-carried variables; the
    /// body may `break` and `return`.  Fuel: the distance between the two compared variables + 2
    /// (one of them has to move towards the other by at least 1 per iteration: the Tie proof shows it).
    fn while_loop_r(&mut self, w: &ExprWhile) -> R<()> {
        if w.label.is_some() {
            return Err("labelled loop".into());
        }
        if self.in_loop > 0 {
            return Err("nested loop".into());
        }
        if self.nontail_sub > 0 {
            return Err("loop inside a nested value block".into());
        }
        // fuel: both sides of the comparison, evaluated before the loop, must be effect-free unsigned values
        let fuel = match &*w.cond {
            Expr::Binary(b) if matches!(b.op, BinOp::Ge(_) | BinOp::Gt(_) | BinOp::Le(_) | BinOp::Lt(_)) => {
                let ok = |t: Option<String>| t.map(|t| t == "UInt64" || t == "UInt32" || t == "UInt16").unwrap_or(false);
                // an unsuffixed literal has the type of the other side
                let (mut lt, mut rt) = (self.type_of(&b.left), self.type_of(&b.right));
                if lt.is_none() && untyped_int_lit(&b.left) { lt = rt.clone(); }
                if rt.is_none() && untyped_int_lit(&b.right) { rt = lt.clone(); }
                if ok(lt.clone()) && ok(rt.clone()) {
                    let mark = self.lines.len();
                    self.expect = lt;
                    let l = self.expr(&b.left)?;
                    self.expect = rt;
                    let r = self.expr(&b.right)?;
                    if self.lines.len() != mark {
                        self.lines.truncate(mark);
                        None
                    } else {
                        match b.op {
                            BinOp::Ge(_) | BinOp::Gt(_) => Some(format!("({l}.toNat - {r}.toNat + 2)")),
                            _ => Some(format!("({r}.toNat - {l}.toNat + 2)")),
                        }
                    }
                } else {
                    None
                }
            }
            _ => None,
        };
        let fuel = fuel.ok_or("while loop without a known fuel bound")?;
        let pmode = self.mode == Mode::P;
        let pstate = self.pstate.clone().unwrap_or_default();
        let monad = if pmode { format!("Rs.P {}", self.vars.get(&pstate).cloned().unwrap_or_default()) } else { "Model.M".to_string() };
        let mut av = AssignedVars { reg: self.reg, out: vec![], declared: vec![] };
        syn::visit::Visit::visit_block(&mut av, &w.body);
        let mut state: Vec<String> = vec![];
        for v in &av.out {
            if Some(v) == self.reader.as_ref() {
                continue;
            }
            if av.declared.contains(v) {
                if self.vars.contains_key(v) || self.untyped.contains(v) {
                    return Err(format!("loop body both declares and assigns `{v}`"));
                }
                // a local of the body
                continue;
            }
            if !self.mut_vars.contains(v) {
                return Err(format!("assignment to `{v}`, which is not a local `mut` variable"));
            }
            if !state.contains(v) {
                state.push(v.clone());
            }
        }
        if state.is_empty() {
            return Err("while loop without loop-carried variables".into());
        }
        let mut uses = UsedIdents { out: vec![] };
        syn::visit::Visit::visit_expr(&mut uses, &w.cond);
        syn::visit::Visit::visit_block(&mut uses, &w.body);
        let mut free: Vec<(String, String)> = vec![];
        for u in &uses.out {
            if state.contains(u) || av.declared.contains(u) || free.iter().any(|(n, _)| n == u) {
                continue;
            }
            if self.untyped.contains(u) {
                return Err(format!("loop uses `{u}`, whose type is not known"));
            }
            if Some(u) == self.reader.as_ref() {
                continue;
            }
            if let Some(t) = self.vars.get(u) {
                free.push((u.clone(), t.clone()));
            }
        }
        let mut state_tys = vec![];
        for v in &state {
            state_tys.push(self.vars.get(v).cloned().ok_or(format!("loop-carried `{v}` of unknown type"))?);
        }
        let st = if state.len() == 1 { state[0].clone() } else { format!("({})", state.join(", ")) };
        let st_ty = if state.len() == 1 { state_tys[0].clone() } else { format!("({})", state_tys.join(" × ")) };
        let ret = self.ret_ty.clone().ok_or("loop in a function without a result type")?;
        self.n_loops += 1;
        let base = format!("{}.loop{}", self.lean_name, self.n_loops);
        let fparams: String = free.iter().map(|(n, t)| format!(" ({n} : {t})")).collect();
        let fargs: String = free.iter().map(|(n, _)| format!(" {n}")).collect();
        let sparam = format!(" (st : {st_ty})");
        let destruct = if state.len() == 1 { format!("let {} := st", state[0]) } else { format!("let ({}) := st", state.join(", ")) };
        let saved_lines = std::mem::take(&mut self.lines);
        let saved_indent = self.indent;
        let saved_vars = self.vars.clone();
        let saved_mut = self.mut_vars.clone();
        let saved_untyped = self.untyped.clone();
        let outer_rest = std::mem::take(&mut self.rest);
        self.indent = 1;
        self.in_loop += 1;
        self.loop_state = Some(st.clone());
        let r: R<(Vec<String>, Vec<String>)> = (|| {
            self.emit(destruct.clone());
            let c = self.expr(&w.cond)?;
            self.emit(format!("pure {c}"));
            let cond_lines = std::mem::take(&mut self.lines);
            self.emit(destruct.clone());
            for v in &state {
                self.emit(format!("let mut {v} := {v}"));
            }
            self.stmts(&w.body.stmts)?;
            self.emit(format!("pure (Rs.Step.next {st})"));
            let body_lines = std::mem::take(&mut self.lines);
            Ok((cond_lines, body_lines))
        })();
        self.in_loop -= 1;
        self.loop_state = None;
        self.lines = saved_lines;
        self.indent = saved_indent;
        self.vars = saved_vars;
        self.mut_vars = saved_mut;
        self.untyped = saved_untyped;
        self.rest = outer_rest;
        let (cond_lines, body_lines) = r?;
        self.aux.push(format!("def {base}_cond{fparams}{sparam} : {monad} Bool := do\n{}\n", cond_lines.join("\n")));
        self.aux.push(format!("def {base}_body{fparams}{sparam} : {monad} (Rs.Step {st_ty} {ret}) := do\n{}\n", body_lines.join("\n")));
        let t = self.fresh();
        if pmode {
            if !state.contains(&pstate) {
                return Err("loop that does not carry the `&mut` parameter".into());
            }
            let proj = if state.len() == 1 { "(fun st => st)".to_string() } else { format!("(fun st => let ({}) := st; {pstate})", state.join(", ")) };
            self.emit(format!("let {t} ← Rs.P.whileLoop {proj} ({base}_cond{fargs}) ({base}_body{fargs}) {fuel} {st}"));
            self.emit(format!("match {t} with"));
            self.emit(format!("| Rs.LoopEnd.ret r => return (r, {pstate})"));
        } else {
            self.emit(format!("let {t} ← Rs.R.whileLoop ({base}_cond{fargs}) ({base}_body{fargs}) {fuel} {st}"));
            self.emit(format!("match {t} with"));
            self.emit("| Rs.LoopEnd.ret r => return r".into());
        }
        if state.len() == 1 {
            self.emit(format!("| Rs.LoopEnd.done s => {} := s", state[0]));
        } else {
            let ts: Vec<String> = state.iter().map(|_| self.fresh()).collect();
            self.emit(format!("| Rs.LoopEnd.done ({}) =>", ts.join(", ")));
            self.indent += 1;
            for (v, t) in state.iter().zip(ts.iter()) {
                self.emit(format!("{v} := {t}"));
            }
            self.indent -= 1;
        }
        Ok(())
    }

    /// `while cond { body }` in a W-mode function → `Rs.W.whileLoop` over the loop-carried variables.
    /// Fuel heuristic: `while !x.is_empty()` over a byte-slice variable gets `x.length + 1`.
    fn while_loop(&mut self, w: &ExprWhile) -> R<()> {
        if self.t5() {
            return self.while_loop_r(w);
        }
        if self.mode != Mode::W {
            return Err("while loop outside a ZipResult function".into());
        }
        if w.label.is_some() {
            return Err("labelled loop".into());
        }
        let fuel_var = match &*w.cond {
            Expr::Unary(u) if matches!(u.op, UnOp::Not(_)) => match &*u.expr {
                Expr::MethodCall(m) if m.method == "is_empty" && m.args.is_empty() => path_ident(&m.receiver),
                _ => None,
            },
            _ => None,
        };
        let fuel_var = fuel_var.filter(|v| self.vars.get(v).map(|s| s.as_str()) == Some("Bytes")).ok_or("while loop without a known fuel bound")?;
        let mut av = AssignedVars { reg: self.reg, out: vec![], declared: vec![] };
        syn::visit::Visit::visit_block(&mut av, &w.body);
        let mut state: Vec<String> = vec![];
        for v in &av.out {
            if av.declared.contains(v) {
                return Err(format!("loop body both declares and assigns `{v}`"));
            }
            if !self.mut_vars.contains(v) {
                return Err(format!("assignment to `{v}`, which is not a local `mut` variable"));
            }
            if !state.contains(v) {
                state.push(v.clone());
            }
        }
        if !state.contains(&fuel_var) {
            return Err("while loop that does not modify its fuel variable".into());
        }
        // free variables of the loop: every local / parameter mentioned in it, with its type
        let mut uses = UsedIdents { out: vec![] };
        syn::visit::Visit::visit_expr(&mut uses, &w.cond);
        syn::visit::Visit::visit_block(&mut uses, &w.body);
        let mut free: Vec<(String, String)> = vec![];
        for u in &uses.out {
            if state.contains(u) || av.declared.contains(u) || free.iter().any(|(n, _)| n == u) {
                continue;
            }
            if self.untyped.contains(u) {
                return Err(format!("loop uses `{u}`, whose type is not known"));
            }
            if Some(u) == self.writer.as_ref() {
                continue;
            }
            if let Some(t) = self.vars.get(u) {
                free.push((u.clone(), t.clone()));
            }
        }
        let mut state_tys = vec![];
        for v in &state {
            state_tys.push(self.vars.get(v).cloned().ok_or(format!("loop-carried `{v}` of unknown type"))?);
        }
        let st = if state.len() == 1 { state[0].clone() } else { format!("({})", state.join(", ")) };
        let st_ty = if state.len() == 1 { state_tys[0].clone() } else { format!("({})", state_tys.join(" × ")) };
        self.n_loops += 1;
        let base = format!("{}.loop{}", self.lean_name, self.n_loops);
        let fparams: String = free.iter().map(|(n, t)| format!(" ({n} : {t})")).collect();
        let fargs: String = free.iter().map(|(n, _)| format!(" {n}")).collect();
        let sparam = format!(" (st : {st_ty})");
        let destruct = if state.len() == 1 { format!("let {} := st", state[0]) } else { format!("let ({}) := st", state.join(", ")) };
        // translate condition and body into their own definitions
        let saved_lines = std::mem::take(&mut self.lines);
        let saved_indent = self.indent;
        let saved_vars = self.vars.clone();
        let saved_mut = self.mut_vars.clone();
        let outer_rest = std::mem::take(&mut self.rest);
        let saved_tmp = self.tmp;
        self.indent = 1;
        self.in_loop += 1;
        let r: R<(Vec<String>, Vec<String>)> = (|| {
            self.emit(destruct.clone());
            let c = self.expr(&w.cond)?;
            self.emit(format!("pure {c}"));
            let cond_lines = std::mem::take(&mut self.lines);
            self.emit(destruct.clone());
            for v in &state {
                self.emit(format!("let mut {v} := {v}"));
            }
            self.stmts(&w.body.stmts)?;
            self.emit(format!("pure {st}"));
            let body_lines = std::mem::take(&mut self.lines);
            Ok((cond_lines, body_lines))
        })();
        self.in_loop -= 1;
        self.lines = saved_lines;
        self.indent = saved_indent;
        self.vars = saved_vars;
        self.mut_vars = saved_mut;
        self.rest = outer_rest;
        let _ = saved_tmp;
        let (cond_lines, body_lines) = r?;
        let binders = self.binders.clone();
        self.aux.push(format!("def {base}_cond {binders}{fparams}{sparam} : Rs.W ω Bool := do\n{}\n", cond_lines.join("\n")));
        self.aux.push(format!("def {base}_body {binders}{fparams}{sparam} : Rs.W ω {st_ty} := do\n{}\n", body_lines.join("\n")));
        let rhs = format!("Rs.W.whileLoop ({base}_cond (ω := ω){fargs}) ({base}_body (ω := ω){fargs}) ({fuel_var}.length + 1) {st}");
        if state.len() == 1 {
            self.emit(format!("{} ← {rhs}", state[0]));
        } else {
            let ts: Vec<String> = state.iter().map(|_| self.fresh()).collect();
            self.emit(format!("let ({}) ← {rhs}", ts.join(", ")));
            for (v, t) in state.iter().zip(ts.iter()) {
                self.emit(format!("{v} := {t}"));
            }
        }
        Ok(())
    }

    fn assign(&mut self, lhs: &Expr, v: String) -> R<()> {
        match lhs {
            Expr::Path(p) if p.path.segments.len() == 1 => {
                self.emit(format!("{} := {v}", path_last(&p.path)));
                Ok(())
            }
            Expr::Field(f) => {
                if let (Expr::Path(p), Member::Named(n)) = (&*f.base, &f.member) {
                    if p.path.is_ident("self") {
                        if self.reader_self.is_some() {
                            return Err("assignment to a field of `self` in a method whose device is `self.reader`".into());
                        }
                        self.emit(format!("self := {{ self with {n} := {v} }}"));
                        return Ok(());
                    }
                    let b = path_last(&p.path);
                    if self.t5() && p.path.segments.len() == 1 && self.mut_vars.contains(&b) && self.vars.get(&b).map(|t| t.starts_with("Gen.")).unwrap_or(false) {
                        self.emit(format!("{b} := {{ {b} with {n} := {v} }}"));
                        return Ok(());
                    }
                }
                Err("assignment to a nested place".into())
            }
            Expr::Unary(u) if matches!(u.op, UnOp::Deref(_)) => self.assign(&u.expr, v),
            _ => Err("assignment target".into()),
        }
    }

    fn wrap_ret(&self, v: String) -> String {
        v
    }
}

/// Components of a Lean product type `(A × B × C)` (top level only).
fn split_prod(t: &str) -> Vec<String> {
    let inner = match t.strip_prefix('(').and_then(|x| x.strip_suffix(')')) {
        Some(i) => i,
        None => return vec![t.to_string()],
    };
    let mut parts = vec![];
    let mut depth = 0;
    let mut cur = String::new();
    for ch in inner.chars() {
        match ch {
            '(' => { depth += 1; cur.push(ch); }
            ')' => { depth -= 1; cur.push(ch); }
            '×' if depth == 0 => { parts.push(cur.trim().to_string()); cur = String::new(); }
            _ => cur.push(ch),
        }
    }
    parts.push(cur.trim().to_string());
    parts
}

/// `break` / `return` / `continue` as a match-arm body
fn diverges(e: &Expr) -> bool {
    matches!(e, Expr::Break(_) | Expr::Return(_) | Expr::Continue(_))
}

fn is_assign_op(op: &BinOp) -> bool {
    use BinOp::*;
    matches!(op, AddAssign(_) | SubAssign(_) | MulAssign(_) | BitAndAssign(_) | BitOrAssign(_) | BitXorAssign(_) | ShlAssign(_) | ShrAssign(_) | DivAssign(_) | RemAssign(_))
}

fn tokens_hash(ts: &proc_macro2::TokenStream) -> String {
    let s = ts.to_string();
    let mut h: u64 = 0xcbf29ce484222325;
    for b in s.bytes() {
        h ^= b as u64;
        h = h.wrapping_mul(0x100000001b3);
    }
    format!("{h:016x}")
}

struct FileOut {
    module: String,
    imports: Vec<String>,
    body: String,
}

/// Mode, writer parameter and value type of a function, from its signature.
fn sig_info(tr: &Tr, sig: &Signature, impl_generics: Option<&Generics>) -> R<(FnInfo, Option<String>)> {
    let mut tparam: Option<String> = None;
    let mut seek = false;
    let mut read = false;
    let mut n_generics = 0;
    // a type parameter of the enclosing `impl<R: Read + Seek> …` counts when a parameter is `&mut R`
    // lifetime parameters carry no meaning here
    let mut own: Vec<&GenericParam> = sig.generics.params.iter().filter(|g| !matches!(g, GenericParam::Lifetime(_))).collect();
    if let Some(ig) = impl_generics {
        if own.is_empty() && ig.where_clause.is_none() {
            for g in &ig.params {
                if let GenericParam::Type(tp) = g {
                    let used = sig.inputs.iter().any(|a| matches!(a, FnArg::Typed(t) if matches!(&*t.ty, Type::Reference(r) if r.mutability.is_some() && matches!(&*r.elem, Type::Path(p) if p.path.is_ident(&tp.ident)))))
                        || t6r::owned_reader(sig, impl_generics).is_some();
                    if used {
                        own.push(g);
                    }
                }
            }
        }
    }
    for g in own {
        n_generics += 1;
        match g {
            GenericParam::Type(tp) => {
                let mut write = false;
                for b in &tp.bounds {
                    match b {
                        TypeParamBound::Trait(tb) => match path_last(&tb.path).as_str() {
                            "Write" => write = true,
                            "Seek" => seek = true,
                            "Read" => read = true,
                            other => return Err(format!("generic bound {other}")),
                        },
                        _ => return Err("generic bound".into()),
                    }
                }
                if write == read {
                    return Err("generic function".into());
                }
                tparam = Some(tp.ident.to_string());
            }
            _ => return Err("generic function".into()),
        }
    }
    if n_generics > 1 || sig.generics.where_clause.is_some() {
        return Err("generic function".into());
    }
    let mut writer_idx = None;
    let mut writer_name = None;
    let mut k = 0;
    for a in &sig.inputs {
        if let FnArg::Typed(t) = a {
            if let (Some(tp), Type::Path(p), true) = (&tparam, &*t.ty, read) {
                // the reader by value (`mut reader: R`)
                if p.path.is_ident(tp.as_str()) {
                    if writer_idx.is_some() {
                        return Err("writer parameter".into());
                    }
                    writer_idx = Some(k);
                    if let Pat::Ident(id) = &*t.pat {
                        writer_name = Some(id.ident.to_string());
                    }
                }
            }
            if let (Some(tp), Type::Reference(r)) = (&tparam, &*t.ty) {
                if let Type::Path(p) = &*r.elem {
                    if p.path.is_ident(tp.as_str()) {
                        if r.mutability.is_none() || writer_idx.is_some() {
                            return Err("writer parameter".into());
                        }
                        writer_idx = Some(k);
                        if let Pat::Ident(id) = &*t.pat {
                            writer_name = Some(id.ident.to_string());
                        }
                    }
                }
            }
            k += 1;
        }
    }
    if tparam.is_some() && writer_name.is_none() {
        return Err("generic function without a `&mut T` writer parameter".into());
    }
    // `reader: &mut (impl Read [+ Seek])`
    let mut impl_reader = false;
    if tparam.is_none() {
        if let Some((idx, name, sk)) = t6r::impl_reader(sig) {
            writer_idx = Some(idx);
            writer_name = Some(name);
            read = true;
            seek = sk;
            impl_reader = true;
        }
    }
    // a method whose device is a field of `self` (`self.reader: R`, `R: Read [+ Seek]` a parameter of the impl)
    if tparam.is_none() && !impl_reader {
        if let Some(sk) = t6r2::self_reader(tr.self_ty.as_deref(), sig, impl_generics) {
            read = true;
            seek = sk;
        }
    }
    // `ZipResult<R>` → W mode
    let zr: Option<&Type> = match &sig.output {
        ReturnType::Type(_, t) => match &**t {
            Type::Path(p) if path_last(&p.path) == "ZipResult" => match &p.path.segments.last().unwrap().arguments {
                PathArguments::AngleBracketed(a) if a.args.len() == 1 => match &a.args[0] {
                    GenericArgument::Type(t) => Some(t),
                    _ => None,
                },
                _ => None,
            },
            _ => None,
        },
        _ => None,
    };
    // `x: &mut Struct` (a translated structure) in a plain ZipResult function → P mode
    if tparam.is_none() && !impl_reader && t6r::has_take_param(sig) {
        // a `Take` over the device: the function does I/O on it through the layers it builds
        read = true;
    }
    if zr.is_some() && tparam.is_none() && !impl_reader {
        let mut found: Option<(usize, String)> = None;
        let mut k = 0;
        for a in &sig.inputs {
            if let FnArg::Typed(t) = a {
                if let Type::Reference(r) = &*t.ty {
                    if r.mutability.is_some() {
                        let is_struct = matches!(&*r.elem, Type::Path(p) if tr.reg.structs.contains(&path_last(&p.path)));
                        if !is_struct || found.is_some() {
                            return Err("`&mut` parameter".into());
                        }
                        if let Pat::Ident(id) = &*t.pat {
                            found = Some((k, id.ident.to_string()));
                        }
                    }
                }
                k += 1;
            }
        }
        if let Some((idx, name)) = found {
            return Ok((FnInfo { mode: Mode::P, writer_idx: Some(idx), seek: false, ret: Some(tr.ty(zr.unwrap())?) }, Some(name)));
        }
    }
    match zr {
        Some(t) => Ok((FnInfo { mode: if read { Mode::R } else { Mode::W }, writer_idx, seek, ret: Some(tr.ty(t)?) }, writer_name)),
        None => {
            if writer_name.is_some() {
                return Err("writer function that does not return ZipResult".into());
            }
            let ret = match &sig.output {
                ReturnType::Default => Some("Unit".to_string()),
                ReturnType::Type(_, t) => tr.ty(t).ok(),
            };
            Ok((FnInfo { mode: Mode::Pure, writer_idx: None, seek: false, ret }, None))
        }
    }
}

fn translate_fn(reg: &Registry, failed: &HashSet<String>, self_ty: Option<&str>, sig: &Signature, block: &Block, lean_name: &str, impl_generics: Option<&Generics>) -> R<String> {
    let mut tr = Tr::new(reg, failed, self_ty.map(|s| s.to_string()), 1);
    let (fi, writer_name) = sig_info(&tr, sig, impl_generics)?;
    tr.mode = fi.mode.clone();
    match fi.mode {
        Mode::R => tr.reader = writer_name,
        Mode::P => tr.pstate = writer_name,
        _ => tr.writer = writer_name,
    }
    tr.seekable = fi.seek;
    tr.reader_owned = fi.mode == Mode::R && t6r::owned_reader(sig, impl_generics).is_some();
    if fi.mode == Mode::R && tr.reader.is_none() {
        if t6r2::self_reader(self_ty, sig, impl_generics).is_some() {
            tr.reader_self = self_ty.and_then(t6r2::reader_field);
        }
    }
    let mut mut_params: Vec<String> = vec![];
    tr.lean_name = lean_name.to_string();
    {
        let mut binders = String::from("{ω : Type}");
        if fi.writer_idx.is_some() {
            binders += " [Rs.Sink ω]";
        }
        if fi.seek {
            binders += " [Rs.SeekSink ω]";
        }
        if matches!(fi.mode, Mode::R | Mode::P) {
            binders = String::new();
        }
        tr.binders = binders;
    }
    let mut params = vec![];
    let mut mut_self = false;
    let mut has_self = false;
    let mut k = 0;
    for a in &sig.inputs {
        match a {
            FnArg::Receiver(r) => {
                has_self = true;
                mut_self = r.mutability.is_some() && r.reference.is_some();
                let st = self_ty.ok_or("self outside impl")?;
                params.push(format!("(self : Gen.{st})"));
                tr.vars.insert("self".into(), format!("Gen.{st}"));
            }
            FnArg::Typed(t) => {
                let n = match &*t.pat {
                    Pat::Ident(id) => id.ident.to_string(),
                    _ => return Err("parameter pattern".into()),
                };
                if Some(k) == fi.writer_idx && fi.mode != Mode::P {
                    k += 1;
                    continue;
                }
                k += 1;
                let ty = tr.ty(&t.ty)?;
                params.push(format!("({n} : {ty})"));
                if matches!(&*t.pat, Pat::Ident(id) if id.mutability.is_some()) && fi.mode == Mode::R && tr.reader_self.is_some() {
                    mut_params.push(n.clone());
                }
                tr.vars.insert(n, ty);
            }
        }
    }
    let _ = has_self;
    if fi.mode != Mode::Pure {
        if mut_self && tr.reader_self.is_none() {
            return Err("`&mut self` method returning ZipResult".into());
        }
        if fi.mode == Mode::R && has_self && tr.reader_self.is_none() {
            return Err("READ-mode method with a self parameter".into());
        }
        for p in &mut_params {
            tr.emit(format!("let mut {p} := {p}"));
            tr.mut_vars.insert(p.clone());
        }
        let ret = fi.ret.clone().unwrap();
        tr.ret_ty = Some(ret.clone());
        tr.hint = Some(ret.clone());
        tr.expect = Some(ret.clone());
        tr.tail = true;
        if let (Mode::P, Some(p)) = (&fi.mode, tr.pstate.clone()) {
            tr.emit(format!("let mut {p} := {p}"));
            tr.mut_vars.insert(p);
        }
        if fi.mode == Mode::R && (t6r::has_store(block) || t6r2::calls_store_fn(self_ty, block)) {
            tr.rstores = Some("stores_".into());
            tr.emit("let mut stores_ : Rs.Stores := []".into());
            tr.mut_vars.insert("stores_".into());
            tr.vars.insert("stores_".into(), "Rs.Stores".into());
        }
        let v = tr.block_value(block)?;
        tr.hint = None;
        if let (Mode::P, Some(p)) = (&fi.mode, tr.pstate.clone()) {
            tr.emit(format!("pure ({v}, {p})"));
        } else if let (Mode::R, Some(st)) = (&fi.mode, tr.rstores.clone()) {
            tr.emit(format!("pure ({v}, {st})"));
        } else {
            tr.emit(format!("pure {v}"));
        }
        let binders = tr.binders.clone();
        let mut s = String::new();
        for a in &tr.aux {
            s += a;
            s.push('\n');
        }
        let ps = if params.is_empty() { String::new() } else { format!(" {}", params.join(" ")) };
        let ps = if tr.uses_ext {
            t6r::mark_ext_fn(lean_name);
            format!(" (ext : Rs.ReadExt Gen.ZipCryptoValidator Gen.AesMode){ps}")
        } else {
            ps
        };
        if fi.mode == Mode::R && tr.rstores.is_some() {
            t6r2::mark_store_fn(lean_name);
            writeln!(s, "def {lean_name}{ps} : Model.M ({ret} × Rs.Stores) := do").unwrap();
        } else if fi.mode == Mode::R {
            writeln!(s, "def {lean_name}{ps} : Model.M {ret} := do").unwrap();
        } else if fi.mode == Mode::P {
            let st_ty = tr.pstate.as_ref().and_then(|p| tr.vars.get(p)).cloned().unwrap_or_default();
            writeln!(s, "def {lean_name}{ps} : Rs.P {st_ty} ({ret} × {st_ty}) := do").unwrap();
        } else {
            writeln!(s, "def {lean_name} {binders}{ps} : Rs.W ω {ret} := do").unwrap();
        }
        for l in tr.lines {
            writeln!(s, "{l}").unwrap();
        }
        return Ok(s);
    }
    let ret = match &sig.output {
        ReturnType::Default => "Unit".to_string(),
        ReturnType::Type(_, t) => tr.ty(t)?,
    };
    let full_ret = if mut_self {
        let st = format!("Gen.{}", self_ty.unwrap());
        if ret == "Unit" { st } else { format!("({ret} × {st})") }
    } else {
        ret.clone()
    };
    tr.ret_ty = Some(ret.clone());
    if mut_self {
        tr.emit("let mut self := self".into());
    }
    tr.hint = Some(ret.clone());
    let v = tr.block_value(block)?;
    tr.hint = None;
    let fin = if mut_self {
        if ret == "Unit" { "self".to_string() } else { format!("({v}, self)") }
    } else {
        v
    };
    tr.emit(format!("pure {fin}"));
    let mut s = String::new();
    writeln!(s, "def {lean_name} {} : Option {full_ret} := do", params.join(" ")).unwrap();
    for l in tr.lines {
        writeln!(s, "{l}").unwrap();
    }
    Ok(s)
}

/// An error helper `fn f<T>(detail: &'static str) -> ZipResult<T> { Err(ZipError::V(detail)) }`: the variant `V`.
fn errfn_variant(f: &ItemFn) -> R<String> {
    if f.sig.inputs.len() != 1 || f.block.stmts.len() != 1 {
        return Err("error helper of an unsupported shape".into());
    }
    let param = match &f.sig.inputs[0] {
        FnArg::Typed(t) => match &*t.pat {
            Pat::Ident(id) => id.ident.to_string(),
            _ => return Err("error helper parameter".into()),
        },
        _ => return Err("error helper parameter".into()),
    };
    let zr = matches!(&f.sig.output, ReturnType::Type(_, t) if matches!(&**t, Type::Path(p) if path_last(&p.path) == "ZipResult"));
    if !zr {
        return Err("error helper that does not return ZipResult".into());
    }
    if let Stmt::Expr(Expr::Call(c), None) = &f.block.stmts[0] {
        if let Expr::Path(p) = &*c.func {
            if p.path.is_ident("Err") && c.args.len() == 1 {
                if let Expr::Call(ic) = &c.args[0] {
                    if let Expr::Path(ip) = &*ic.func {
                        let segs: Vec<String> = ip.path.segments.iter().map(|s| s.ident.to_string()).collect();
                        if segs.len() == 2 && segs[0] == "ZipError" && ic.args.len() == 1 && path_ident(&ic.args[0]).as_deref() == Some(&param) && matches!(&ic.args[0], Expr::Path(_)) {
                            if ["InvalidArchive", "UnsupportedArchive"].contains(&segs[1].as_str()) {
                                return Ok(segs[1].clone());
                            }
                        }
                    }
                }
            }
        }
    }
    Err("error helper of an unsupported shape".into())
}

fn const_expr(reg: &Registry, e: &Expr) -> R<String> {
    const_expr_l(reg, &HashSet::new(), e)
}

/// `locals`: constants declared earlier in the same function body
fn const_expr_l(reg: &Registry, locals: &HashSet<String>, e: &Expr) -> R<String> {
    // constant expressions: literals, casts of MAX constants, other consts, arithmetic on them
    match e {
        Expr::Lit(ExprLit { lit: Lit::Int(i), .. }) => Ok(lit_str(i).0),
        Expr::Cast(c) => const_expr_l(reg, locals, &c.expr),
        Expr::Paren(p) => const_expr_l(reg, locals, &p.expr),
        Expr::Path(p) => {
            let s = quote::quote!(#p).to_string().replace(' ', "");
            match s.as_str() {
                "u32::MAX" | "::std::u32::MAX" | "std::u32::MAX" => Ok("4294967295".into()),
                "u16::MAX" | "::std::u16::MAX" | "std::u16::MAX" => Ok("65535".into()),
                "u64::MAX" => Ok("18446744073709551615".into()),
                _ => {
                    let n = path_last(&p.path);
                    if p.path.segments.len() == 1 && locals.contains(&n) {
                        Ok(n)
                    } else if reg.consts.contains(&n) { Ok(format!("Gen.{n}")) } else { Err(format!("constant path {s}")) }
                }
            }
        }
        Expr::Binary(b) => {
            let l = const_expr_l(reg, locals, &b.left)?;
            let r = const_expr_l(reg, locals, &b.right)?;
            let op = match b.op {
                BinOp::Add(_) => "+",
                BinOp::Sub(_) => "-",
                BinOp::Mul(_) => "*",
                _ => return Err("constant operator".into()),
            };
            Ok(format!("({l} {op} {r})"))
        }
        _ => Err("constant expression".into()),
    }
}

fn main() {
    let args: Vec<String> = std::env::args().collect();
    if args.len() < 4 {
        eprintln!("usage: rs2lean <src-dir> <out-dir> <items-file>");
        std::process::exit(2);
    }
    let (src, out, items) = (&args[1], &args[2], &args[3]);
    let spec = std::fs::read_to_string(items).expect("items file");
    // parse the items file
    struct FileSpec { rs: String, module: String, imports: Vec<String>, items: Vec<(String, String)> }
    let mut files: Vec<FileSpec> = vec![];
    for line in spec.lines() {
        let line = line.trim();
        if line.is_empty() || line.starts_with('#') { continue; }
        let w: Vec<&str> = line.split_whitespace().collect();
        if w[0] == "@file" {
            files.push(FileSpec { rs: w[1].into(), module: w[2].into(), imports: w[3..].iter().map(|s| s.to_string()).collect(), items: vec![] });
        } else {
            files.last_mut().expect("@file first").items.push((w[0].into(), w[1].into()));
        }
    }
    // pass 1: parse all files, build the registry from the *listed* items
    let mut asts: BTreeMap<String, syn::File> = BTreeMap::new();
    for f in &files {
        let text = std::fs::read_to_string(format!("{src}/{}", f.rs)).unwrap_or_else(|_| panic!("cannot read {}", f.rs));
        match syn::parse_file(&text) {
            Ok(a) => { asts.insert(f.rs.clone(), a); }
            Err(e) => { println!("untranslated {} (parse error: {e})", f.rs); }
        }
    }
    let mut reg = Registry::default();
    fn find_items<'a>(items: &'a [Item], out: &mut Vec<&'a Item>) {
        for it in items {
            match it {
                Item::Mod(m) if cfg_on(&m.attrs) => {
                    if m.ident != "test" && m.ident != "tests" {
                        if let Some((_, its)) = &m.content { find_items(its, out); }
                    }
                    out.push(it);
                }
                _ => out.push(it),
            }
        }
    }
    for f in &files {
        let ast = match asts.get(&f.rs) { Some(a) => a, None => continue };
        let mut all = vec![];
        find_items(&ast.items, &mut all);
        for (kind, name) in &f.items {
            match kind.as_str() {
                "const" => { reg.consts.insert(name.clone()); }
                "enum" => {
                    for it in &all {
                        if let Item::Enum(e) = it {
                            if e.ident == name && cfg_on(&e.attrs) {
                                let vs = e.variants.iter().filter(|v| cfg_on(&v.attrs)).map(|v| (v.ident.to_string(), !matches!(v.fields, Fields::Unit))).collect();
                                reg.enums.insert(name.clone(), vs);
                                t6r::register_variant_fields(e);
                            }
                        }
                    }
                }
                // an enum that another generated module declares (`lenum` of the layer translation): known here, not emitted
                "xenum" => {
                    for ast in asts.values() {
                        let mut all2 = vec![];
                        find_items(&ast.items, &mut all2);
                        for it in &all2 {
                            if let Item::Enum(e) = it {
                                if e.ident == name && cfg_on(&e.attrs) {
                                    let vs = e.variants.iter().filter(|v| cfg_on(&v.attrs)).map(|v| (v.ident.to_string(), !matches!(v.fields, Fields::Unit))).collect();
                                    reg.enums.insert(name.clone(), vs);
                                }
                            }
                        }
                    }
                }
                "struct" | "sstruct" => { reg.structs.insert(name.clone()); }
                "xstruct" => { t6r2::register_gstruct(name); }
                "xfn" => {
                    reg.methods.insert(name.clone(), MethodInfo { mut_self: false, has_self: false, unit_ret: false, fi: FnInfo { mode: Mode::Pure, writer_idx: None, seek: false, ret: None } });
                }
                "aconst" => { reg.aconsts.insert(name.clone(), ()); }
                "errfn" => {
                    for it in &all {
                        if let Item::Fn(f) = it {
                            if f.sig.ident == name && cfg_on(&f.attrs) {
                                if let Ok(v) = errfn_variant(f) {
                                    reg.errfns.insert(name.clone(), v);
                                }
                            }
                        }
                    }
                }
                _ => {}
            }
        }
    }
    // pass 1b: types of struct fields and constants, signatures of functions
    let no_failed: HashSet<String> = HashSet::new();
    for f in &files {
        let ast = match asts.get(&f.rs) { Some(a) => a, None => continue };
        let mut all = vec![];
        find_items(&ast.items, &mut all);
        for (kind, name) in &f.items {
            match kind.as_str() {
                "const" => {
                    for it in &all {
                        let (ident, ty, attrs) = match it {
                            Item::Const(c) => (&c.ident, &*c.ty, &c.attrs),
                            Item::Static(s) => (&s.ident, &*s.ty, &s.attrs),
                            _ => continue,
                        };
                        if ident != name || !cfg_on(attrs) { continue; }
                        let tr = Tr::new(&reg, &no_failed, None, 0);
                        if let Ok(t) = tr.ty(ty) {
                            reg.const_ty.insert(name.clone(), t);
                        }
                    }
                }
                "sfn" => {
                    if let Some(mi) = t6w::sfn_info(&reg, &all, name) {
                        reg.methods.insert(name.clone(), mi);
                    }
                }
                "tfn" => t6w2::register_tfn(&reg, &all, name),
                "gfn" => t6w3::register_gfn(name),
                "zacc" => t6w4::register_zacc(&reg, &all, name),
                "bfn" => t6w4::register_bfn(&reg, &all, name),
                "struct" | "sstruct" => {
                    for it in &all {
                        if let Item::Struct(st) = it {
                            if st.ident != name || !cfg_on(&st.attrs) { continue; }
                            t6r2::register_reader_field(st);
                            let mut m = HashMap::new();
                            let mut strs: Vec<(String, String)> = vec![];
                            if let Fields::Named(n) = &st.fields {
                                let mut tr = Tr::new(&reg, &no_failed, Some(name.clone()), 0);
                                if kind == "sstruct" { tr.mode = Mode::S; }
                                for fl in &n.named {
                                    if !cfg_on(&fl.attrs) { continue; }
                                    if let Ok(t) = tr.ty(&fl.ty) {
                                        m.insert(fl.ident.as_ref().unwrap().to_string(), t);
                                    }
                                    if matches!(&fl.ty, Type::Path(p) if path_last(&p.path) == "String") {
                                        strs.push((name.clone(), fl.ident.as_ref().unwrap().to_string()));
                                    }
                                }
                            }
                            reg.struct_fields.insert(name.clone(), m);
                            reg.str_fields.extend(strs);
                        }
                    }
                }
                "fn" => {
                    if let Some((ty, m)) = name.split_once("::") {
                        for it in &all {
                            if let Item::Impl(im) = it {
                                if im.trait_.is_none() && cfg_on(&im.attrs) {
                                    if let Type::Path(p) = &*im.self_ty {
                                        if path_last(&p.path) == ty {
                                            for ii in &im.items {
                                                if let ImplItem::Fn(f) = ii {
                                                    if f.sig.ident == m && cfg_on(&f.attrs) {
                                                        let recv = f.sig.inputs.iter().find_map(|a| if let FnArg::Receiver(r) = a { Some(r) } else { None });
                                                        let fi = {
                                                            let tr = Tr::new(&reg, &no_failed, Some(ty.to_string()), 0);
                                                            sig_info(&tr, &f.sig, Some(&im.generics)).map(|x| x.0).unwrap_or(FnInfo { mode: Mode::Pure, writer_idx: None, seek: false, ret: None })
                                                        };
                                                        reg.methods.insert(name.clone(), MethodInfo {
                                                            has_self: recv.is_some(),
                                                            mut_self: recv.map(|r| r.mutability.is_some() && r.reference.is_some()).unwrap_or(false),
                                                            unit_ret: matches!(f.sig.output, ReturnType::Default),
                                                            fi,
                                                        });
                                                    }
                                                }
                                            }
                                        }
                                    }
                                }
                            }
                        }
                    } else {
                        let mut fi = FnInfo { mode: Mode::Pure, writer_idx: None, seek: false, ret: None };
                        for it in &all {
                            if let Item::Fn(f) = it {
                                if f.sig.ident == name && cfg_on(&f.attrs) {
                                    let tr = Tr::new(&reg, &no_failed, None, 0);
                                    if let Ok((x, _)) = sig_info(&tr, &f.sig, None) {
                                        fi = x;
                                    }
                                }
                            }
                        }
                        reg.fns.insert(name.clone(), fi);
                    }
                }
                _ => {}
            }
        }
    }
    // tier T6 (layer mode): structures, enums and signatures of the `l*` items
    let lreg = t6l::collect(&files.iter().map(|f| (f.rs.clone(), f.items.clone())).collect::<Vec<_>>(), &asts, &reg);
    // pass 2: emit
    std::fs::create_dir_all(out).unwrap();
    let mut failed: HashSet<String> = HashSet::new();
    for f in &files {
        let ast = match asts.get(&f.rs) { Some(a) => a, None => continue };
        let mut all = vec![];
        find_items(&ast.items, &mut all);
        let mut fo = FileOut { module: f.module.clone(), imports: f.imports.clone(), body: String::new() };
        for (kind, name) in &f.items {
            let r: R<(String, String, usize, usize)> = (|| {
                match kind.as_str() {
                    "const" => {
                        for it in &all {
                            let (ident, ty, expr, attrs, span) = match it {
                                Item::Const(c) => (&c.ident, &*c.ty, &*c.expr, &c.attrs, c.span()),
                                Item::Static(s) => (&s.ident, &*s.ty, &*s.expr, &s.attrs, s.span()),
                                _ => continue,
                            };
                            if ident != name || !cfg_on(attrs) { continue; }
                            let tr = Tr::new(&reg, &failed, None, 0);
                            let t = tr.ty(ty)?;
                            let h = tokens_hash(&quote::quote!(#ty #expr));
                            let body = if let Expr::Array(a) = expr {
                                let elems: R<Vec<String>> = a.elems.iter().map(|e| const_expr(&reg, e)).collect();
                                let elems = elems?;
                                let mut s = String::from("#[");
                                for (i, e) in elems.iter().enumerate() {
                                    if i > 0 { s += ", "; }
                                    if i % 8 == 0 { s += "\n  "; }
                                    s += e;
                                }
                                s += "]";
                                s
                            } else {
                                const_expr(&reg, expr)?
                            };
                            return Ok((format!("def Gen.{name} : {t} := {body}\n"), h, span.start().line, span.end().line));
                        }
                        Err("not found".into())
                    }
                    "enum" => {
                        for it in &all {
                            if let Item::Enum(e) = it {
                                if e.ident != name || !cfg_on(&e.attrs) { continue; }
                                let tr = Tr::new(&reg, &failed, Some(name.clone()), 0);
                                let mut s = format!("inductive Gen.{name} where\n");
                                let mut discr = vec![];
                                let mut next: u64 = 0;
                                let mut fieldless = true;
                                let mut opaque_payload = false;
                                for v in e.variants.iter().filter(|v| cfg_on(&v.attrs)) {
                                    match &v.fields {
                                        Fields::Unit => {
                                            writeln!(s, "  | {}", v.ident).unwrap();
                                            if let Some((_, Expr::Lit(ExprLit { lit: Lit::Int(i), .. }))) = &v.discriminant {
                                                next = i.base10_parse::<u64>().map_err(|e| e.to_string())?;
                                            }
                                            discr.push((v.ident.to_string(), next));
                                            next += 1;
                                        }
                                        Fields::Unnamed(u) => {
                                            fieldless = false;
                                            let ts: R<Vec<String>> = u.unnamed.iter().map(|f| tr.ty(&f.ty)).collect();
                                            let ts = ts?;
                                            if ts.iter().any(|t| !t6r2::derivable_payload(t)) {
                                                opaque_payload = true;
                                            }
                                            let binders: Vec<String> = ts.iter().enumerate().map(|(i, t)| format!("(a{i} : {t})")).collect();
                                            writeln!(s, "  | {} {}", v.ident, binders.join(" ")).unwrap();
                                        }
                                        Fields::Named(n) => {
                                            fieldless = false;
                                            opaque_payload = true;
                                            let mut binders = vec![];
                                            for f in &n.named {
                                                binders.push(format!("({} : {})", f.ident.as_ref().unwrap(), tr.ty(&f.ty)?));
                                            }
                                            writeln!(s, "  | {} {}", v.ident, binders.join(" ")).unwrap();
                                        }
                                    }
                                }
                                if !opaque_payload {
                                    s += "  deriving DecidableEq, Repr\n";
                                } else {
                                    t6r2::mark_no_derive(name);
                                }
                                if fieldless {
                                    writeln!(s, "\ndef Gen.{name}.discr : Gen.{name} → UInt64").unwrap();
                                    for (v, d) in &discr { writeln!(s, "  | .{v} => {d}").unwrap(); }
                                    for t in ["UInt8", "UInt16", "UInt32", "UInt64"] {
                                        writeln!(s, "instance : Rs.As Gen.{name} {t} := ⟨fun x => Rs.as' {t} x.discr⟩").unwrap();
                                    }
                                }
                                let h = tokens_hash(&quote::quote!(#e));
                                return Ok((s, h, e.span().start().line, e.span().end().line));
                            }
                        }
                        Err("not found".into())
                    }
                    "sfn" => t6w::translate_sfn(&reg, &failed, &all, name),
                    "tfn" => t6w2::translate_tfn(&reg, &failed, &all, name),
                    "gfn" => t6w3::translate_gfn(&reg, &failed, &all, name),
                    "zacc" => t6w4::translate_zacc(&reg, &failed, &all, name),
                    "bfn" => t6w4::translate_bfn(&reg, &failed, &all, name),
                    "afn" => t6w2::translate_afn(&reg, &failed, &all, name),
                    "hfn" => t6r3::translate_hfn(&reg, &failed, &all, name),
                    "efn" => t6r4::translate_efn(&all, name),
                    "denum" => t6r4b::translate_denum(&all, name),
                    "dstruct" => t6r4b::translate_dstruct(&all, name),
                    "dfn" => t6r4b::translate_dfn(&asts, &all, name),
                    "struct" | "sstruct" => {
                        for it in &all {
                            if let Item::Struct(st) = it {
                                if st.ident != name || !cfg_on(&st.attrs) { continue; }
                                let mut tr = Tr::new(&reg, &failed, Some(name.clone()), 0);
                                if kind == "sstruct" { tr.mode = Mode::S; }
                                let mut s = format!("structure Gen.{name} where\n");
                                let mut dropped = vec![];
                                if let Fields::Named(n) = &st.fields {
                                    for f in &n.named {
                                        if !cfg_on(&f.attrs) { continue; }
                                        let id = f.ident.as_ref().unwrap();
                                        match tr.ty(&f.ty) {
                                            Ok(t) => writeln!(s, "  {id} : {t}").unwrap(),
                                            Err(_) => dropped.push(id.to_string()),
                                        }
                                    }
                                } else {
                                    return Err("tuple struct".into());
                                }
                                if !dropped.is_empty() {
                                    writeln!(s, "  -- fields of unsupported type dropped: {}", dropped.join(", ")).unwrap();
                                }
                                let h = tokens_hash(&quote::quote!(#st));
                                return Ok((s, h, st.span().start().line, st.span().end().line));
                            }
                        }
                        Err("not found".into())
                    }
                    "fn" => {
                        if let Some((ty, m)) = name.split_once("::") {
                            for it in &all {
                                if let Item::Impl(im) = it {
                                    if im.trait_.is_some() || !cfg_on(&im.attrs) { continue; }
                                    if let Type::Path(p) = &*im.self_ty {
                                        if path_last(&p.path) != ty { continue; }
                                        for ii in &im.items {
                                            if let ImplItem::Fn(f) = ii {
                                                if f.sig.ident == m && cfg_on(&f.attrs) {
                                                    let s = translate_fn(&reg, &failed, Some(ty), &f.sig, &f.block, &format!("Gen.{ty}.{m}"), Some(&im.generics))?;
                                                    let h = tokens_hash(&quote::quote!(#f));
                                                    return Ok((s, h, f.span().start().line, f.span().end().line));
                                                }
                                            }
                                        }
                                    }
                                }
                            }
                            Err("not found".into())
                        } else {
                            for it in &all {
                                if let Item::Fn(f) = it {
                                    if f.sig.ident == name && cfg_on(&f.attrs) {
                                        let s = translate_fn(&reg, &failed, None, &f.sig, &f.block, &format!("Gen.{name}"), None)?;
                                        let h = tokens_hash(&quote::quote!(#f));
                                        return Ok((s, h, f.span().start().line, f.span().end().line));
                                    }
                                }
                            }
                            Err("not found".into())
                        }
                    }
                    "aconst" => {
                        let (ty, cn) = name.split_once("::").ok_or("aconst needs Type::NAME")?;
                        for it in &all {
                            if let Item::Impl(im) = it {
                                if im.trait_.is_some() || !cfg_on(&im.attrs) { continue; }
                                if let Type::Path(p) = &*im.self_ty {
                                    if path_last(&p.path) != ty { continue; }
                                    for ii in &im.items {
                                        if let ImplItem::Const(c) = ii {
                                            if c.ident == cn && cfg_on(&c.attrs) {
                                                let mut tr = Tr::new(&reg, &failed, Some(ty.to_string()), 0);
                                                let t = tr.ty(&c.ty)?;
                                                let v = tr.expr(&c.expr)?;
                                                if !tr.lines.is_empty() {
                                                    return Err("associated constant with a computed value".into());
                                                }
                                                let h = tokens_hash(&quote::quote!(#c));
                                                return Ok((format!("def Gen.{ty}.{cn} : {t} := {v}\n"), h, c.span().start().line, c.span().end().line));
                                            }
                                        }
                                    }
                                }
                            }
                        }
                        Err("not found".into())
                    }
                    "xstruct" => Ok((format!("-- structure `{name}`: declared by another generated module (imported)\n"), String::from("-"), 0, 0)),
                    "xfn" => {
                        // the function must exist in the source (its text is translated by the module that declares it)
                        let (ty, m) = name.split_once("::").ok_or("xfn needs Type::f")?;
                        for ast in asts.values() {
                            let all2: Vec<&Item> = ast.items.iter().collect();
                            if t6l::find_method(&all2, ty, m).is_some() {
                                return Ok((format!("-- fn `{name}`: declared by another generated module (imported)\n"), String::from("-"), 0, 0));
                            }
                        }
                        Err("not found".into())
                    }
                    "xenum" => {
                        if reg.enums.contains_key(name) {
                            return Ok((format!("-- enum `{name}`: declared by another generated module (imported)\n"), String::from("-"), 0, 0));
                        }
                        Err("not found".into())
                    }
                    "errfn" => {
                        for it in &all {
                            if let Item::Fn(f) = it {
                                if f.sig.ident == name && cfg_on(&f.attrs) {
                                    let v = errfn_variant(f)?;
                                    let h = tokens_hash(&quote::quote!(#f));
                                    return Ok((format!("def Gen.{name} : Rs.ZipErr := Rs.ZipErr.{v}\n"), h, f.span().start().line, f.span().end().line));
                                }
                            }
                        }
                        Err("not found".into())
                    }
                    k if k.starts_with('l') => t6l::emit(k, name, &all, &reg, &lreg, &failed),
                    k => Err(format!("unknown item kind {k}")),
                }
            })();
            match r {
                Ok((text, h, l0, l1)) => {
                    if kind != "lvar" {
                        println!("translated {}::{} lines {}-{}", f.rs, name, l0, l1);
                        writeln!(fo.body, "/- {} {} `{}` (lines {}-{}, token hash {}) -/", f.rs, kind, name, l0, l1, h).unwrap();
                    }
                    fo.body += &text;
                    fo.body.push('\n');
                }
                Err(e) => {
                    failed.insert(name.clone());
                    println!("untranslated {}::{} ({})", f.rs, name, e);
                    writeln!(fo.body, "-- UNTRANSLATED {} {} `{}`: {}\n", f.rs, kind, name, e).unwrap();
                }
            }
        }
        let mut text = String::new();
        writeln!(text, "import ZipVerif.Basic.Rs").unwrap();
        if fo.body.contains("Rs.R.") || fo.body.contains("Model.M") {
            writeln!(text, "import ZipVerif.Basic.RsM").unwrap();
        }
        if fo.body.contains("Rs.L.") || fo.body.contains("Rs.IoRes") || fo.body.contains("Rs.Crc32Hasher") {
            writeln!(text, "import ZipVerif.Basic.RsL").unwrap();
        }
        if fo.body.contains("Rs.S.") {
            writeln!(text, "import ZipVerif.Basic.RsS").unwrap();
        }
        if fo.body.contains("Rs.B.") {
            writeln!(text, "import ZipVerif.Basic.RsB").unwrap();
        }
        if fo.body.contains("Rs.Vec") || fo.body.contains("Rs.HashMap") || fo.body.contains("Rs.R.forRange") || fo.body.contains("Rs.Arc") || fo.body.contains("Rs.Take") || fo.body.contains("Rs.Stores") || fo.body.contains("Rs.ReadExt") || fo.body.contains("Rs.InvalidPassword") {
            writeln!(text, "import ZipVerif.Basic.RsGlue").unwrap();
        }
        if fo.body.contains("Rs.Aes") || fo.body.contains("Rs.Hmac") {
            writeln!(text, "import ZipVerif.Basic.RsAes").unwrap();
        }
        if fo.body.contains("Rs.PathOps") || fo.body.contains("Rs.Component") || fo.body.contains("Rs.Str.") {
            writeln!(text, "import ZipVerif.Basic.RsPath").unwrap();
        }
        for i in &fo.imports {
            // a dotted name is a module outside `Gen/` (hand-written glue), taken verbatim
            if i.contains('.') { writeln!(text, "import {i}").unwrap(); } else { writeln!(text, "import ZipVerif.Gen.{i}").unwrap(); }
        }
        writeln!(text, "/- GENERATED by rs2lean from /repo/src/{} on every check run. Do not edit. -/", f.rs).unwrap();
        writeln!(text, "set_option linter.unusedVariables false\nnamespace ZipVerif\n").unwrap();
        text += &fo.body;
        writeln!(text, "end ZipVerif").unwrap();
        let path = format!("{out}/{}.lean", fo.module);
        let old = std::fs::read_to_string(&path).unwrap_or_default();
        if old != text {
            std::fs::write(&path, text).unwrap();
        }
    }
}
