//! rs2lean tier T6, LAYER mode: methods of structures that wrap an inner `R: Read` / `W: Write`.
//!
//! Item kinds (items file): `lstruct Name`, `lenum Name`, `lfn Type::method` (inherent or trait impl).
//! Target: a plain Lean function `Id.run do …` over the values of everything the Rust function may
//! mutate; every exit site is `return (outcome, self, buf)` (see `ZipVerif/Basic/RsL.lean`).
//! Anything outside the subset below is an `Err` (the item is reported `untranslated`).
use super::*;

#[derive(Clone, Debug, PartialEq)]
pub enum LTy {
    Int(String),
    Bool,
    Bytes,
    /// a Rust `String` / `&str`: its UTF-8 bytes (slicing checks character boundaries)
    Str,
    /// a `Path` / `PathBuf` / `OsStr` on Unix: the bytes of the `OsStr`
    Path,
    /// `Cow<'_, T>` (auto-dereferenced by a method call: `Rs.Cow.get`)
    Cow(Box<LTy>),
    Unit,
    /// a translated structure / enum (`Gen.Name args`)
    Adt(String, Vec<LTy>),
    /// a type parameter of the enclosing impl
    Param(String),
    /// an external type of the vocabulary (Lean name)
    Ext(String),
    Opt(Box<LTy>),
    Io(Box<LTy>),
    /// `Result<T, E>` with an error type of the vocabulary (or `()`): `Except E T`
    Res(Box<LTy>, Box<LTy>),
    /// a tuple `(A, B, …)`
    Tup(Vec<LTy>),
    List(Box<LTy>),
    Unknown,
}

impl LTy {
    pub fn lean(&self) -> String {
        match self {
            LTy::Int(s) => s.clone(),
            LTy::Bool => "Bool".into(),
            LTy::Bytes | LTy::Str | LTy::Path => "Bytes".into(),
            LTy::Cow(t) => format!("(Rs.Cow {})", t.lean()),
            LTy::Unit => "Unit".into(),
            LTy::Adt(n, a) if a.is_empty() => format!("Gen.{n}"),
            LTy::Adt(n, a) => format!("(Gen.{n} {})", a.iter().map(|x| x.lean()).collect::<Vec<_>>().join(" ")),
            LTy::Param(p) => p.clone(),
            LTy::Ext(n) => n.clone(),
            LTy::Opt(t) => format!("(Option {})", t.lean()),
            LTy::Io(t) => format!("(Rs.IoRes {})", t.lean()),
            LTy::Res(t, e) => format!("(Except {} {})", e.lean(), t.lean()),
            LTy::Tup(ts) => format!("({})", ts.iter().map(|t| t.lean()).collect::<Vec<_>>().join(" × ")),
            LTy::List(t) => format!("(List {})", t.lean()),
            LTy::Unknown => "_".into(),
        }
    }
}

#[derive(Clone, Debug)]
pub struct LStruct {
    pub params: Vec<String>,
    pub fields: Vec<(String, LTy)>,
}

#[derive(Clone, Debug, PartialEq)]
pub enum SelfKind {
    None,
    Ref,
    RefMut,
    Value,
}

#[derive(Clone, Debug)]
pub struct LFnSig {
    pub self_kind: SelfKind,
    /// (name, type, is `&mut` state)
    pub params: Vec<(String, LTy, bool)>,
    pub ret: LTy,
    /// impl type parameters with their trait bounds
    pub tparams: Vec<(String, Vec<String>)>,
}

#[derive(Default)]
pub struct LReg {
    pub structs: HashMap<String, LStruct>,
    pub enums: HashMap<String, Vec<(String, Vec<LTy>)>>,
    pub fns: HashMap<String, LFnSig>,
    /// `lkind` items: unit structures that implement `AesKind` (type arguments of the key stream)
    pub kinds: HashSet<String>,
}

/// external types of the vocabulary: Rust name → Lean type
fn ext_type(name: &str) -> Option<&'static str> {
    Some(match name {
        "Hasher" => "Rs.Crc32Hasher",
        "Hmac" => "Rs.Hmac",
        // `Box<dyn AesCipher>`
        "AesCipher" => "Rs.AesDyn.Cipher",
        // `C::Cipher` of `C: AesKind` (aes::Aes128 / Aes192 / Aes256): the keyed block cipher
        "Cipher" => "Rs.AesBlock",
        // the `time` crate (feature `time`; Basic/RsTime.lean)
        "ComponentRange" => "Rs.ComponentRange",
        "DateTimeRangeError" => "Rs.DateTimeRangeError",
        "Month" => "Rs.Month",
        "Date" => "Rs.TimeOps.Date",
        "Time" => "Rs.TimeOps.Time",
        "PrimitiveDateTime" => "Rs.TimeOps.PrimitiveDateTime",
        "OffsetDateTime" => "Rs.TimeOps.OffsetDateTime",
        _ => return None,
    })
}

/// vocabulary enums (Lean type → variants with their payload types), matched like translated enums
pub fn ext_enum(lean_ty: &str) -> Option<Vec<(String, Vec<LTy>)>> {
    match lean_ty {
        // `std::path::Component` (payloads: the bytes of the `OsStr`)
        "Rs.Component" => Some(vec![
            ("Prefix".into(), vec![LTy::Bytes]),
            ("RootDir".into(), vec![]),
            ("CurDir".into(), vec![]),
            ("ParentDir".into(), vec![]),
            ("Normal".into(), vec![LTy::Bytes]),
        ]),
        _ => None,
    }
}

/// how a vocabulary method treats its receiver
#[derive(Clone, Copy, PartialEq)]
pub enum ExtKind {
    /// `f recv args : ret`
    Pure,
    /// `&mut self`, no result: `f recv args : Self`
    Mut,
    /// `&mut self` with a result: `f recv args : ret × Self`
    MutRet,
    /// `&mut self` and one `&mut [u8]` argument, may panic: `f recv buf : Option (Bytes × Self)`
    MutBuf,
    /// `&self` and one `&mut [u8]` argument, may panic: `f recv buf : Option Bytes`
    RefBuf,
}

/// vocabulary: (Lean receiver type, method) → (Lean function, kind, result type)
fn ext_method(ty: &str, m: &str) -> Option<(&'static str, ExtKind, LTy)> {
    Some(match (ty, m) {
        ("Rs.Crc32Hasher", "update") => ("Rs.Crc32Hasher.update", ExtKind::Mut, LTy::Unit),
        ("Rs.Crc32Hasher", "finalize") => ("Rs.Crc32Hasher.finalize", ExtKind::Pure, LTy::Int("UInt32".into())),
        ("Rs.Crc32Hasher", "clone") => ("Rs.Crc32Hasher.clone", ExtKind::Pure, LTy::Ext("Rs.Crc32Hasher".into())),
        ("Rs.Hmac", "update") => ("Rs.Hmac.update", ExtKind::Mut, LTy::Unit),
        ("Rs.Hmac", "finalize_reset") => ("Rs.Hmac.finalize_reset", ExtKind::MutRet, LTy::Bytes),
        ("Rs.AesDyn.Cipher", "crypt_in_place") => ("Rs.AesDyn.crypt_in_place", ExtKind::MutBuf, LTy::Unit),
        ("Rs.AesBlock", "encrypt_block") => ("Rs.AesBlock.encrypt_block", ExtKind::RefBuf, LTy::Unit),
        ("Rs.Component", "as_os_str") => ("Rs.Component.as_os_str", ExtKind::Pure, LTy::Path),
        ("Rs.TimeOps.PrimitiveDateTime", "assume_utc") => ("Rs.TimeOps.assume_utc", ExtKind::Pure, LTy::Ext("Rs.TimeOps.OffsetDateTime".into())),
        ("Rs.TimeOps.OffsetDateTime", "year") => ("Rs.TimeOps.year", ExtKind::Pure, LTy::Int("Int32".into())),
        ("Rs.TimeOps.OffsetDateTime", "month") => ("Rs.TimeOps.month", ExtKind::Pure, LTy::Ext("Rs.Month".into())),
        ("Rs.TimeOps.OffsetDateTime", "day") => ("Rs.TimeOps.day", ExtKind::Pure, LTy::Int("UInt8".into())),
        ("Rs.TimeOps.OffsetDateTime", "hour") => ("Rs.TimeOps.hour", ExtKind::Pure, LTy::Int("UInt8".into())),
        ("Rs.TimeOps.OffsetDateTime", "minute") => ("Rs.TimeOps.minute", ExtKind::Pure, LTy::Int("UInt8".into())),
        ("Rs.TimeOps.OffsetDateTime", "second") => ("Rs.TimeOps.second", ExtKind::Pure, LTy::Int("UInt8".into())),
        _ => return None,
    })
}

/// vocabulary: free functions (Lean function, result type, may panic: the Lean function returns an `Option`)
fn ext_free(f: &str) -> Option<(&'static str, LTy, bool)> {
    Some(match f {
        "constant_time_eq" => ("Rs.L.bytesEq", LTy::Bool, false),
        // aes.rs: `Box::new(AesCtrZipKeyStream::<AesNNN>::new(key)) as Box<dyn AesCipher>` by mode
        _ => return None,
    })
}

/// vocabulary: free functions whose last argument is a `&mut [u8]` they fill: (path, turbofish, Lean function
/// of the other arguments and the old buffer, giving the new buffer)
fn ext_fill(path: &[String], turbofish: &str) -> Option<&'static str> {
    match (path.iter().map(|s| s.as_str()).collect::<Vec<_>>().as_slice(), turbofish) {
        (["pbkdf2", "pbkdf2"], "Hmac < Sha1 >") => Some("Rs.pbkdf2"),
        _ => None,
    }
}

/// vocabulary: associated functions of external types
fn ext_static(ty: &str, f: &str) -> Option<(&'static str, LTy)> {
    Some(match (ty, f) {
        ("Hasher", "new") => ("Rs.Crc32Hasher.new", LTy::Ext("Rs.Crc32Hasher".into())),
        // `Hmac::<Sha1>::new_from_slice(key)`: `Result<Self, InvalidLength>` as an `Option`
        ("Hmac", "new_from_slice") => ("Rs.Hmac.new_from_slice", LTy::Opt(Box::new(LTy::Ext("Rs.Hmac".into())))),
        ("Month", "try_from") => ("Rs.Month.try_from", LTy::Res(Box::new(LTy::Ext("Rs.Month".into())), Box::new(LTy::Ext("Rs.ComponentRange".into())))),
        ("Date", "from_calendar_date") => ("Rs.TimeOps.from_calendar_date", LTy::Res(Box::new(LTy::Ext("Rs.TimeOps.Date".into())), Box::new(LTy::Ext("Rs.ComponentRange".into())))),
        ("Time", "from_hms") => ("Rs.TimeOps.from_hms", LTy::Res(Box::new(LTy::Ext("Rs.TimeOps.Time".into())), Box::new(LTy::Ext("Rs.ComponentRange".into())))),
        ("PrimitiveDateTime", "new") => ("Rs.TimeOps.pdt_new", LTy::Ext("Rs.TimeOps.PrimitiveDateTime".into())),
        _ => return None,
    })
}

fn generic_args(seg: &PathSegment) -> Vec<&Type> {
    match &seg.arguments {
        PathArguments::AngleBracketed(a) => a.args.iter().filter_map(|g| if let GenericArgument::Type(t) = g { Some(t) } else { None }).collect(),
        _ => vec![],
    }
}

pub fn lty(t: &Type, tparams: &[String], self_ty: Option<&LTy>, reg: &Registry, lreg: &LReg) -> LTy {
    match t {
        Type::Reference(r) => lty(&r.elem, tparams, self_ty, reg, lreg),
        Type::Paren(p) => lty(&p.elem, tparams, self_ty, reg, lreg),
        Type::Slice(s) => match lty(&s.elem, tparams, self_ty, reg, lreg) {
            LTy::Int(i) if i == "UInt8" => LTy::Bytes,
            _ => LTy::Unknown,
        },
        Type::Array(a) => match lty(&a.elem, tparams, self_ty, reg, lreg) {
            LTy::Int(i) if i == "UInt8" => LTy::Bytes,
            _ => LTy::Unknown,
        },
        Type::Tuple(t) if t.elems.is_empty() => LTy::Unit,
        Type::Tuple(t) => {
            let ts: Vec<LTy> = t.elems.iter().map(|e| lty(e, tparams, self_ty, reg, lreg)).collect();
            if ts.contains(&LTy::Unknown) { LTy::Unknown } else { LTy::Tup(ts) }
        }
        Type::Path(p) => {
            let seg = p.path.segments.last().unwrap();
            let n = seg.ident.to_string();
            let args = generic_args(seg);
            if p.path.segments.len() == 2 && tparams.contains(&p.path.segments[0].ident.to_string()) {
                // an associated type of a type parameter: vocabulary by its name
                return match ext_type(&n) {
                    Some(e) => LTy::Ext(e.into()),
                    None => LTy::Unknown,
                };
            }
            if p.path.segments.len() == 1 {
                if n == "u128" {
                    return LTy::Int("Rs.U128".into());
                }
                if let Some(pt) = prim_ty(&n) {
                    return if pt == "Bool" { LTy::Bool } else { LTy::Int(pt.into()) };
                }
                if tparams.contains(&n) {
                    return LTy::Param(n);
                }
                if n == "Self" {
                    return self_ty.cloned().unwrap_or(LTy::Unknown);
                }
            }
            match n.as_str() {
                // strings are their UTF-8 bytes, Unix paths the bytes of their `OsStr`
                "String" | "str" if args.is_empty() => LTy::Str,
                "Path" | "PathBuf" | "OsStr" if args.is_empty() => LTy::Path,
                "Box" if args.len() == 1 => {
                    if let Type::TraitObject(to) = args[0] {
                        for b in &to.bounds {
                            if let TypeParamBound::Trait(tb) = b {
                                if let Some(e) = ext_type(&path_last(&tb.path)) {
                                    return LTy::Ext(e.into());
                                }
                            }
                        }
                    }
                    LTy::Unknown
                }
                "Vec" if args.len() == 1 => match lty(args[0], tparams, self_ty, reg, lreg) {
                    LTy::Int(i) if i == "UInt8" => LTy::Bytes,
                    _ => LTy::Unknown,
                },
                "Option" if args.len() == 1 => LTy::Opt(Box::new(lty(args[0], tparams, self_ty, reg, lreg))),
                "Result" if args.len() == 1 || (args.len() == 2 && matches!(args[1], Type::Path(e) if path_last(&e.path) == "Error" && e.path.segments[0].ident != "Self")) => {
                    LTy::Io(Box::new(lty(args[0], tparams, self_ty, reg, lreg)))
                }
                "Result" if args.len() == 2 => {
                    // an error type of the vocabulary, or `()`
                    let (t, e) = (lty(args[0], tparams, self_ty, reg, lreg), lty(args[1], tparams, self_ty, reg, lreg));
                    if t == LTy::Unknown || !matches!(e, LTy::Ext(_) | LTy::Unit) {
                        return LTy::Unknown;
                    }
                    LTy::Res(Box::new(t), Box::new(e))
                }
                _ => {
                    if let Some(e) = ext_type(&n) {
                        return LTy::Ext(e.into());
                    }
                    if lreg.structs.contains_key(&n) || lreg.enums.contains_key(&n) || reg.structs.contains(&n) || reg.enums.contains_key(&n) {
                        return LTy::Adt(n, args.iter().map(|a| lty(a, tparams, self_ty, reg, lreg)).collect());
                    }
                    LTy::Unknown
                }
            }
        }
        _ => LTy::Unknown,
    }
}

fn impl_tparams(g: &Generics) -> R<Vec<(String, Vec<String>)>> {
    let mut out = vec![];
    for p in &g.params {
        match p {
            GenericParam::Type(tp) => {
                let mut bounds = vec![];
                for b in &tp.bounds {
                    match b {
                        TypeParamBound::Trait(tb) => bounds.push(path_last(&tb.path)),
                        _ => return Err("generic bound".into()),
                    }
                }
                out.push((tp.ident.to_string(), bounds));
            }
            GenericParam::Lifetime(_) => {}
            _ => return Err("generic parameter".into()),
        }
    }
    if let Some(w) = &g.where_clause {
        for pr in &w.predicates {
            match pr {
                WherePredicate::Type(pt) => {
                    let n = match &pt.bounded_ty {
                        Type::Path(p) if p.path.segments.len() == 1 => path_last(&p.path),
                        // `C::Cipher: KeyInit`: the cipher of `C` can be keyed, its key length is that of the kind `C`
                        Type::Path(p) if p.path.segments.len() == 2 && p.path.segments[1].ident == "Cipher" && pt.bounds.iter().any(|b| matches!(b, TypeParamBound::Trait(tb) if path_last(&tb.path) == "KeyInit")) => {
                            let c = p.path.segments[0].ident.to_string();
                            if let Some(e) = out.iter_mut().find(|(k, _)| *k == c) {
                                e.1.push("Cipher:KeyInit".into());
                            }
                            continue;
                        }
                        // other bounds on associated types (`C::Cipher: BlockEncrypt`) carry no vocabulary
                        _ => continue,
                    };
                    for b in &pt.bounds {
                        if let TypeParamBound::Trait(tb) = b {
                            if let Some(e) = out.iter_mut().find(|(k, _)| *k == n) {
                                e.1.push(path_last(&tb.path));
                            }
                        }
                    }
                }
                _ => return Err("where clause".into()),
            }
        }
    }
    Ok(out)
}

/// Find `fn method` in any impl block (inherent or trait) of type `ty`.
pub fn find_method<'a>(all: &[&'a Item], ty: &str, m: &str) -> Option<(&'a ItemImpl, &'a ImplItemFn)> {
    for it in all {
        if let Item::Impl(im) = it {
            if !cfg_on(&im.attrs) {
                continue;
            }
            if let Type::Path(p) = &*im.self_ty {
                if path_last(&p.path) != ty {
                    continue;
                }
                for ii in &im.items {
                    if let ImplItem::Fn(f) = ii {
                        if f.sig.ident == m && cfg_on(&f.attrs) {
                            return Some((im, f));
                        }
                    }
                }
            }
        }
    }
    None
}

fn self_lty(im: &ItemImpl, tps: &[String]) -> LTy {
    if let Type::Path(p) = &*im.self_ty {
        let seg = p.path.segments.last().unwrap();
        let args = generic_args(seg)
            .iter()
            .map(|a| match a {
                Type::Path(q) if q.path.segments.len() == 1 && tps.contains(&path_last(&q.path)) => LTy::Param(path_last(&q.path)),
                _ => LTy::Unknown,
            })
            .collect();
        LTy::Adt(seg.ident.to_string(), args)
    } else {
        LTy::Unknown
    }
}

/// `Result<_, Self::Error>` in the signature of a trait method: `Self::Error` is the `type Error = …;` of the impl
pub fn resolve_self_error(im: &ItemImpl, sig: &Signature) -> Signature {
    let mut sig = sig.clone();
    let assoc = im.items.iter().find_map(|ii| match ii {
        ImplItem::Type(t) if t.ident == "Error" => Some(t.ty.clone()),
        _ => None,
    });
    if let (Some(assoc), ReturnType::Type(_, rt)) = (assoc, &mut sig.output) {
        if let Type::Path(p) = &mut **rt {
            if let Some(seg) = p.path.segments.last_mut() {
                if let PathArguments::AngleBracketed(a) = &mut seg.arguments {
                    for g in a.args.iter_mut() {
                        if let GenericArgument::Type(Type::Path(q)) = g {
                            if q.qself.is_none() && q.path.segments.len() == 2 && q.path.segments[0].ident == "Self" && q.path.segments[1].ident == "Error" {
                                *g = GenericArgument::Type(assoc.clone());
                            }
                        }
                    }
                }
            }
        }
    }
    sig
}

/// Find the free function `fn name`.
pub fn find_free<'a>(all: &[&'a Item], name: &str) -> Option<&'a ItemFn> {
    for it in all {
        if let Item::Fn(f) = it {
            if f.sig.ident == name && cfg_on(&f.attrs) {
                return Some(f);
            }
        }
    }
    None
}

pub fn fn_sig(im: &ItemImpl, f: &ImplItemFn, reg: &Registry, lreg: &LReg) -> R<LFnSig> {
    let tparams = impl_tparams(&im.generics)?;
    let tps: Vec<String> = tparams.iter().map(|x| x.0.clone()).collect();
    let st = self_lty(im, &tps);
    sig_of(tparams, st, &resolve_self_error(im, &f.sig), reg, lreg)
}

pub fn free_sig(f: &ItemFn, reg: &Registry, lreg: &LReg) -> R<LFnSig> {
    sig_of(vec![], LTy::Unknown, &f.sig, reg, lreg)
}

fn sig_of(tparams: Vec<(String, Vec<String>)>, st: LTy, fsig: &Signature, reg: &Registry, lreg: &LReg) -> R<LFnSig> {
    if !fsig.generics.params.is_empty() {
        return Err("generic method".into());
    }
    let tps: Vec<String> = tparams.iter().map(|x| x.0.clone()).collect();
    let mut self_kind = SelfKind::None;
    let mut params = vec![];
    for a in &fsig.inputs {
        match a {
            FnArg::Receiver(r) => {
                self_kind = if r.reference.is_none() {
                    SelfKind::Value
                } else if r.mutability.is_some() {
                    SelfKind::RefMut
                } else {
                    SelfKind::Ref
                };
            }
            FnArg::Typed(t) => {
                let n = match &*t.pat {
                    Pat::Ident(id) => id.ident.to_string(),
                    _ => return Err("parameter pattern".into()),
                };
                let ty = lty(&t.ty, &tps, Some(&st), reg, lreg);
                if ty == LTy::Unknown {
                    return Err(format!("parameter type of `{n}`"));
                }
                let is_mut_ref = matches!(&*t.ty, Type::Reference(r) if r.mutability.is_some());
                if is_mut_ref && ty != LTy::Bytes {
                    return Err(format!("`&mut` parameter `{n}` that is not a byte slice"));
                }
                params.push((n, ty, is_mut_ref));
            }
        }
    }
    let ret = match &fsig.output {
        ReturnType::Default => LTy::Unit,
        ReturnType::Type(_, t) => lty(t, &tps, Some(&st), reg, lreg),
    };
    if ret == LTy::Unknown || matches!(&ret, LTy::Io(t) if **t == LTy::Unknown) {
        return Err("return type".into());
    }
    Ok(LFnSig { self_kind, params, ret, tparams })
}

/// pass 1: structures, enums and signatures of the listed layer items
pub fn collect(files: &[(String, Vec<(String, String)>)], asts: &BTreeMap<String, syn::File>, reg: &Registry) -> LReg {
    let mut lreg = LReg::default();
    // names first (types may refer to each other)
    for (_, items) in files {
        for (k, n) in items {
            match k.as_str() {
                "lstruct" => {
                    lreg.structs.insert(n.clone(), LStruct { params: vec![], fields: vec![] });
                }
                "lenum" => {
                    lreg.enums.insert(n.clone(), vec![]);
                }
                "lkind" => {
                    lreg.kinds.insert(n.clone());
                }
                _ => {}
            }
        }
    }
    for round in 0..2 {
        for (rs, items) in files {
            let ast = match asts.get(rs) {
                Some(a) => a,
                None => continue,
            };
            let all: Vec<&Item> = ast.items.iter().collect();
            for (k, n) in items {
                match (k.as_str(), round) {
                    ("lstruct", 0) => {
                        for it in &all {
                            if let Item::Struct(s) = it {
                                if s.ident == n && cfg_on(&s.attrs) {
                                    let params: Vec<String> = s.generics.params.iter().filter_map(|p| if let GenericParam::Type(t) = p { Some(t.ident.to_string()) } else { None }).collect();
                                    let mut fields = vec![];
                                    if let Fields::Named(nf) = &s.fields {
                                        for f in &nf.named {
                                            if cfg_on(&f.attrs) {
                                                fields.push((f.ident.as_ref().unwrap().to_string(), lty(&f.ty, &params, None, reg, &lreg)));
                                            }
                                        }
                                    }
                                    // a tuple structure: the fields `.0`, `.1`, … are `_0`, `_1`, …
                                    if let Fields::Unnamed(uf) = &s.fields {
                                        for (i, f) in uf.unnamed.iter().enumerate() {
                                            fields.push((format!("_{i}"), lty(&f.ty, &params, None, reg, &lreg)));
                                        }
                                    }
                                    lreg.structs.insert(n.clone(), LStruct { params, fields });
                                }
                            }
                        }
                    }
                    ("lenum", 0) => {
                        for it in &all {
                            if let Item::Enum(e) = it {
                                if e.ident == n && cfg_on(&e.attrs) {
                                    let mut vs = vec![];
                                    for v in e.variants.iter().filter(|v| cfg_on(&v.attrs)) {
                                        let tys = match &v.fields {
                                            Fields::Unit => vec![],
                                            Fields::Unnamed(u) => u.unnamed.iter().map(|f| lty(&f.ty, &[], None, reg, &lreg)).collect(),
                                            Fields::Named(_) => vec![LTy::Unknown],
                                        };
                                        vs.push((v.ident.to_string(), tys));
                                    }
                                    lreg.enums.insert(n.clone(), vs);
                                }
                            }
                        }
                    }
                    ("lfn", 1) => {
                        if let Some((ty, m)) = n.split_once("::") {
                            if let Some((im, f)) = find_method(&all, ty, m) {
                                if let Ok(s) = fn_sig(im, f, reg, &lreg) {
                                    lreg.fns.insert(n.clone(), s);
                                }
                            }
                        } else if let Some(f) = find_free(&all, n) {
                            if let Ok(s) = free_sig(f, reg, &lreg) {
                                lreg.fns.insert(n.clone(), s);
                            }
                        }
                    }
                    _ => {}
                }
            }
        }
    }
    lreg
}

/// pass 2: one item
pub fn emit(kind: &str, name: &str, all: &[&Item], reg: &Registry, lreg: &LReg, failed: &HashSet<String>) -> R<(String, String, usize, usize)> {
    match kind {
        "lstruct" => {
            for it in all {
                if let Item::Struct(s) = it {
                    if s.ident != name || !cfg_on(&s.attrs) {
                        continue;
                    }
                    let st = lreg.structs.get(name).ok_or("not registered")?;
                    let binders: String = st.params.iter().map(|p| format!(" ({p} : Type)")).collect();
                    let mut out = format!("structure Gen.{name}{binders} where\n");
                    if st.fields.is_empty() {
                        return Err("structure without named fields".into());
                    }
                    for (f, t) in &st.fields {
                        if *t == LTy::Unknown {
                            return Err(format!("field `{f}` of unsupported type"));
                        }
                        writeln!(out, "  {f} : {}", t.lean()).unwrap();
                    }
                    return Ok((out, tokens_hash(&quote::quote!(#s)), s.span().start().line, s.span().end().line));
                }
            }
            Err("not found".into())
        }
        "lvar" => Ok((format!("variable [{name}]\n"), String::from("-"), 0, 0)),
        "lkind" => emit_kind(name, all),
        "lenum" => {
            for it in all {
                if let Item::Enum(e) = it {
                    if e.ident != name || !cfg_on(&e.attrs) {
                        continue;
                    }
                    let vs = lreg.enums.get(name).ok_or("not registered")?;
                    let mut out = format!("inductive Gen.{name} where\n");
                    for (v, tys) in vs {
                        if tys.contains(&LTy::Unknown) {
                            return Err(format!("variant `{v}` of unsupported type"));
                        }
                        let b: String = tys.iter().enumerate().map(|(i, t)| format!(" (a{i} : {})", t.lean())).collect();
                        writeln!(out, "  | {v}{b}").unwrap();
                    }
                    return Ok((out, tokens_hash(&quote::quote!(#e)), e.span().start().line, e.span().end().line));
                }
            }
            Err("not found".into())
        }
        "lfn" => {
            let (ty, m) = match name.split_once("::") {
                Some(x) => x,
                None => {
                    // a free function
                    let f = find_free(all, name).ok_or("not found")?;
                    let sig = free_sig(f, reg, lreg)?;
                    let text = LTr::translate(reg, lreg, failed, &format!("Gen.{name}"), LTy::Unknown, &f.sig, &f.block, &sig)?;
                    return Ok((text, tokens_hash(&quote::quote!(#f)), f.span().start().line, f.span().end().line));
                }
            };
            let (im, f) = find_method(all, ty, m).ok_or("not found")?;
            let sig = fn_sig(im, f, reg, lreg)?;
            let tps: Vec<String> = sig.tparams.iter().map(|x| x.0.clone()).collect();
            let text = LTr::translate(reg, lreg, failed, &format!("Gen.{ty}.{m}"), self_lty(im, &tps), &f.sig, &f.block, &sig)?;
            Ok((text, tokens_hash(&quote::quote!(#f)), f.span().start().line, f.span().end().line))
        }
        k => Err(format!("unknown item kind {k}")),
    }
}

/// `lkind Name`: `pub struct Name;` with `impl AesKind for Name { type Key = …; type Cipher = aes::X; }` — a type
/// without values and the instance that says which cipher of the `aes` crate it stands for (its key size is vocabulary)
fn emit_kind(name: &str, all: &[&Item]) -> R<(String, String, usize, usize)> {
    let st = all.iter().find_map(|it| match it {
        Item::Struct(s) if s.ident == name && cfg_on(&s.attrs) && matches!(s.fields, Fields::Unit) => Some(s),
        _ => None,
    }).ok_or("unit structure not found")?;
    for it in all {
        if let Item::Impl(im) = it {
            let is_kind = matches!(&im.trait_, Some((_, p, _)) if path_last(p) == "AesKind");
            let for_name = matches!(&*im.self_ty, Type::Path(p) if path_last(&p.path) == name);
            if !is_kind || !for_name || !cfg_on(&im.attrs) {
                continue;
            }
            for ii in &im.items {
                if let ImplItem::Type(t) = ii {
                    if t.ident == "Cipher" {
                        let cipher = match &t.ty {
                            Type::Path(p) if p.path.segments.len() == 2 && p.path.segments[0].ident == "aes" => path_last(&p.path),
                            _ => return Err("`type Cipher` that is not a cipher of the aes crate".into()),
                        };
                        if !["Aes128", "Aes192", "Aes256"].contains(&cipher.as_str()) {
                            return Err(format!("cipher aes::{cipher}"));
                        }
                        let text = format!("inductive Gen.{name} where\n  | mk\n\ninstance : Rs.AesKind Gen.{name} := ⟨Rs.AesCrate.{cipher}.keySize⟩\n");
                        return Ok((text, tokens_hash(&quote::quote!(#st #im)), st.span().start().line, im.span().end().line));
                    }
                }
            }
        }
    }
    Err("impl AesKind not found".into())
}

include!("t6l_tr.rs");
