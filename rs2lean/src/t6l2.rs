// Part of t6l.rs (included; helper t6l2): `while` loops, re-slicing of a `mut x: &mut [u8]` parameter,
// `for (a, b) in xs.iter_mut().zip(ys.iter())`.

impl<'a> LTr<'a> {
    /// the loop-carried variables of a loop body: everything it assigns, calls a method on or borrows
    /// mutably, as far as it exists outside the loop; a view brings its left-behind part along
    fn carried_of(&self, body: &Block, skip: &[String]) -> Vec<String> {
        let mut mv = Mutated { out: vec![] };
        syn::visit::visit_block(&mut mv, body);
        let mut carried: Vec<String> = vec![];
        for r in mv.out {
            if !skip.contains(&r) && self.vars.contains_key(&r) && !carried.contains(&r) {
                carried.push(r.clone());
                if self.views.contains(&r) {
                    carried.push(format!("{r}'"));
                }
            }
        }
        carried
    }

    fn tuple_pat(names: &[String]) -> String {
        match names.len() {
            0 => "()".to_string(),
            1 => names[0].clone(),
            _ => format!("({})", names.join(", ")),
        }
    }

    /// `x = &mut x[n..]` on a view parameter: the first `n` bytes are left behind
    fn reslice(&mut self, a: &ExprAssign) -> R<()> {
        let x = path_ident(&a.left).ok_or("reslice target")?;
        let bad = || -> R<()> { Err("assignment to a slice parameter other than `x = &mut x[n..]`".into()) };
        let r = match &*a.right {
            Expr::Reference(r) if r.mutability.is_some() => &*r.expr,
            _ => return bad(),
        };
        let ix = match r {
            Expr::Index(ix) if path_ident(&ix.expr).as_deref() == Some(x.as_str()) => ix,
            _ => return bad(),
        };
        let lo = match &*ix.index {
            Expr::Range(rg) if rg.end.is_none() && matches!(rg.limits, RangeLimits::HalfOpen(_)) => match &rg.start {
                Some(s) => s,
                None => return bad(),
            },
            _ => return bad(),
        };
        let (n, _) = self.expr(lo)?;
        let (done, rest) = (self.fresh(), self.fresh());
        self.bind_opt(&format!("({done}, {rest})"), &format!("Rs.L.splitAt {x} {n}"));
        self.emit(format!("{x}' := {x}' ++ {done}"));
        self.emit(format!("{x} := {rest}"));
        Ok(())
    }

    /// `while cond { body }`: `Rs.L.whileLoop fuel vars cond body`.  The fuel comes from the shape of the
    /// condition (a Tie proof has to show it adequate: running out of it is a panic):
    ///   `!x.is_empty()` on a byte slice `x`  →  `x.len() + 1`
    fn while_loop(&mut self, w: &ExprWhile) -> R<()> {
        if self.closure {
            return Err("nested loop".into());
        }
        if w.label.is_some() {
            return Err("labelled loop".into());
        }
        let fuel = match &*w.cond {
            Expr::Unary(u) if matches!(u.op, UnOp::Not(_)) => match &*u.expr {
                Expr::MethodCall(m) if m.method == "is_empty" && m.args.is_empty() => match path_ident(&m.receiver) {
                    Some(x) if self.vars.get(&x) == Some(&LTy::Bytes) => format!("(List.length {x} + 1)"),
                    _ => return Err("while condition (no fuel rule)".into()),
                },
                _ => return Err("while condition (no fuel rule)".into()),
            },
            _ => return Err("while condition (no fuel rule)".into()),
        };
        let carried = self.carried_of(&w.body, &[]);
        let pat = Self::tuple_pat(&carried);
        let (cond, _) = self.pure_expr(&w.cond)?;
        let res = self.fresh();
        let ex = self.exit(&self.panic_res());
        self.emit(format!("let some {res} := Rs.L.whileLoop {fuel} {pat} (fun {pat} => {cond}) (fun {pat} => do"));
        self.ind += 2;
        for c in &carried {
            self.emit(format!("let mut {c} := {c}"));
        }
        let saved_vars = self.vars.clone();
        self.closure = true;
        let r = self.block(&w.body, false);
        self.closure = false;
        self.vars = saved_vars;
        if r?.is_some() {
            return Err("loop body with a value".into());
        }
        self.emit(format!("pure {pat})"));
        self.ind -= 1;
        self.emit(format!("| {ex}"));
        self.ind -= 1;
        if !carried.is_empty() {
            self.emit(format!("{pat} := {res}"));
        }
        Ok(())
    }

    /// `for (a, b) in xs[..].iter_mut().zip(ys[..].iter()) { body }`: the body may assign `*a` and read `*b`
    fn for_zip(&mut self, f: &ExprForLoop) -> R<()> {
        let (va, vb) = match &*f.pat {
            Pat::Tuple(t) if t.elems.len() == 2 => match (&t.elems[0], &t.elems[1]) {
                (Pat::Ident(a), Pat::Ident(b)) if a.by_ref.is_none() && b.by_ref.is_none() => (a.ident.to_string(), b.ident.to_string()),
                _ => return Err("for pattern".into()),
            },
            _ => return Err("for pattern".into()),
        };
        let (xs, ys) = match &*f.expr {
            Expr::MethodCall(z) if z.method == "zip" && z.args.len() == 1 => {
                let xs = match &*z.receiver {
                    Expr::MethodCall(m) if m.method == "iter_mut" && m.args.is_empty() => &*m.receiver,
                    _ => return Err("zip receiver other than `.iter_mut()`".into()),
                };
                let ys = match &z.args[0] {
                    Expr::MethodCall(m) if m.method == "iter" && m.args.is_empty() => &*m.receiver,
                    _ => return Err("zip argument other than `.iter()`".into()),
                };
                (xs, ys)
            }
            _ => return Err("for loop over a tuple pattern that is not a `zip`".into()),
        };
        if self.closure {
            return Err("nested loop".into());
        }
        let (src, wb) = self.buf_arg(xs)?;
        let (other, ot) = self.expr(ys)?;
        if ot != LTy::Bytes {
            return Err("zip over a non-byte container".into());
        }
        let carried = self.carried_of(&f.body, &[va.clone(), vb.clone()]);
        let pat = Self::tuple_pat(&carried);
        let (nb, ns) = (self.fresh(), self.fresh());
        let ex = self.exit(&self.panic_res());
        self.emit(format!("let some ({nb}, {ns}) := Rs.L.iterMutZip {src} {other} {pat} (fun {pat} {va} {vb} => do"));
        self.ind += 2;
        for c in &carried {
            self.emit(format!("let mut {c} := {c}"));
        }
        self.emit(format!("let mut {va} := {va}"));
        let saved_vars = self.vars.clone();
        self.vars.insert(va.clone(), LTy::Int("UInt8".into()));
        self.vars.insert(vb.clone(), LTy::Int("UInt8".into()));
        self.closure = true;
        self.deref_var = Some(va.clone());
        self.deref_ro = vec![vb.clone()];
        let r = self.block(&f.body, false);
        self.closure = false;
        self.deref_var = None;
        self.deref_ro = vec![];
        self.vars = saved_vars;
        if r?.is_some() {
            return Err("loop body with a value".into());
        }
        self.emit(format!("pure ({va}, {pat}))"));
        self.ind -= 1;
        self.emit(format!("| {ex}"));
        self.ind -= 1;
        if !carried.is_empty() {
            self.emit(format!("{pat} := {ns}"));
        }
        self.write_back(wb, nb)
    }

    /// `for x in list { body }` over a list value; the body may leave the function (`return`, `?`)
    fn for_list(&mut self, f: &ExprForLoop, var: &str) -> R<()> {
        if self.closure {
            return Err("nested loop".into());
        }
        if f.label.is_some() {
            return Err("labelled loop".into());
        }
        let (xs, xt) = self.expr(&f.expr)?;
        let elem = match xt {
            LTy::List(t) => *t,
            _ => return Err("for loop over something other than `.iter_mut()` or a list".into()),
        };
        if !self.state.is_empty() {
            return Err("list loop in a function with `&mut` state".into());
        }
        let carried = self.carried_of(&f.body, &[var.to_string()]);
        let pat = Self::tuple_pat(&carried);
        let res = self.fresh();
        let ex = self.exit(&self.panic_res());
        self.emit(format!("let some {res} := Rs.L.forEach {xs} {pat} (fun {pat} {var} => do"));
        self.ind += 2;
        for c in &carried {
            self.emit(format!("let mut {c} := {c}"));
        }
        let saved_vars = self.vars.clone();
        self.vars.insert(var.to_string(), elem);
        self.closure = true;
        self.loop_ret = true;
        let r = self.block(&f.body, false);
        self.closure = false;
        self.loop_ret = false;
        self.vars = saved_vars;
        if r?.is_some() {
            return Err("loop body with a value".into());
        }
        self.emit(format!("pure (Rs.Step.next {pat}))"));
        self.ind -= 1;
        self.emit(format!("| {ex}"));
        self.ind -= 1;
        let r = self.fresh();
        let early = if self.is_io() { self.exit(&r) } else { self.exit(&format!("some {r}")) };
        self.emit(format!("match {res} with"));
        self.emit(format!("| .ret {r} => {early}"));
        if carried.is_empty() {
            self.emit("| .done _ => pure ()".into());
        } else {
            let s = self.fresh();
            self.emit(format!("| .done {s} => {pat} := {s}"));
        }
        Ok(())
    }

    /// `list.fold(init, |acc, x| body)`: the body is an expression over `acc` and `x` (it may panic)
    fn fold(&mut self, xs: &str, elem: &LTy, init: &Expr, clo: &Expr) -> R<(String, LTy)> {
        if self.closure {
            return Err("nested loop".into());
        }
        let c = match clo {
            Expr::Closure(c) if c.inputs.len() == 2 && c.capture.is_none() => c,
            _ => return Err("fold argument".into()),
        };
        // `|mut acc, ref x|`: a mutable accumulator is a `let mut`; `ref x` is a reference to the element (read only)
        let names: Vec<String> = c.inputs.iter().enumerate().map(|(i, p)| match p { Pat::Ident(id) if id.subpat.is_none() && (i == 0 && id.by_ref.is_none() || i == 1 && id.mutability.is_none()) => Ok(id.ident.to_string()), _ => Err("fold closure parameter".to_string()) }).collect::<R<Vec<_>>>()?;
        let mut_acc = matches!(&c.inputs[0], Pat::Ident(id) if id.mutability.is_some());
        let hint = self.hint.take();
        let (iv, it) = self.expr(init)?;
        let acc_ty = if it != LTy::Unknown { it } else { hint.ok_or("fold accumulator of unknown type")? };
        let res = self.fresh();
        let ex = self.exit(&self.panic_res());
        self.emit(format!("let some {res} := Rs.L.foldM {xs} ({iv} : {}) (fun {} {} => do", acc_ty.lean(), names[0], names[1]));
        self.ind += 2;
        let saved_vars = self.vars.clone();
        self.vars.insert(names[0].clone(), acc_ty.clone());
        self.vars.insert(names[1].clone(), elem.clone());
        self.closure = true;
        if mut_acc {
            self.emit(format!("let mut {} := {}", names[0], names[0]));
        }
        let r = (|| -> R<()> {
            match &*c.body {
                Expr::Block(b) => {
                    let v = self.block(&b.block, false)?.ok_or("fold body without a value")?;
                    self.emit(format!("pure {v}"));
                }
                Expr::Match(m) => {
                    let t = self.fresh();
                    self.match_arms(m, Some(&format!("let {t} : {}", acc_ty.lean())))?;
                    self.emit(format!("pure {t}"));
                }
                e => {
                    let (v, _) = self.expr(e)?;
                    self.emit(format!("pure {v}"));
                }
            }
            Ok(())
        })();
        self.closure = false;
        self.vars = saved_vars;
        r?;
        let last = self.lines.pop().unwrap();
        self.lines.push(format!("{last})"));
        self.ind -= 1;
        self.emit(format!("| {ex}"));
        self.ind -= 1;
        Ok((res, acc_ty))
    }
}

include!("t6l3.rs");
