// Part of t6l.rs (included; helper t6l2): `while` loops, re-slicing of a `mut x: &mut [u8]` parameter,
// `for (a, b) in xs.iter_mut().zip(ys.iter())`.

impl<'a> LTr<'a> {
    /// the loop-carried variables of a loop body: everything it assigns, calls a method on or borrows
    /// mutably, as far as it exists outside the loop; a view brings its left-behind part along
    fn carried_of(&self, body: &Block, skip: &[String]) -> Vec<String> {
        let mut mv = Mutated { out: vec![] };
        syn::visit::visit_block(&mut mv, body);
        let mut carried: Vec<String> = vec![];
        for r in mv.out {
            if !skip.contains(&r) && self.vars.contains_key(&r) && !carried.contains(&r) {
                carried.push(r.clone());
                if self.views.contains(&r) {
                    carried.push(format!("{r}'"));
                }
            }
        }
        carried
    }

    fn tuple_pat(names: &[String]) -> String {
        match names.len() {
            0 => "()".to_string(),
            1 => names[0].clone(),
            _ => format!("({})", names.join(", ")),
        }
    }

    /// `x = &mut x[n..]` on a view parameter: the first `n` bytes are left behind
    fn reslice(&mut self, a: &ExprAssign) -> R<()> {
        let x = path_ident(&a.left).ok_or("reslice target")?;
        let bad = || -> R<()> { Err("assignment to a slice parameter other than `x = &mut x[n..]`".into()) };
        let r = match &*a.right {
            Expr::Reference(r) if r.mutability.is_some() => &*r.expr,
            _ => return bad(),
        };
        let ix = match r {
            Expr::Index(ix) if path_ident(&ix.expr).as_deref() == Some(x.as_str()) => ix,
            _ => return bad(),
        };
        let lo = match &*ix.index {
            Expr::Range(rg) if rg.end.is_none() && matches!(rg.limits, RangeLimits::HalfOpen(_)) => match &rg.start {
                Some(s) => s,
                None => return bad(),
            },
            _ => return bad(),
        };
        let (n, _) = self.expr(lo)?;
        let (done, rest) = (self.fresh(), self.fresh());
        self.bind_opt(&format!("({done}, {rest})"), &format!("Rs.L.splitAt {x} {n}"));
        self.emit(format!("{x}' := {x}' ++ {done}"));
        self.emit(format!("{x} := {rest}"));
        Ok(())
    }

    /// `while cond { body }`: `Rs.L.whileLoop fuel vars cond body`.  The fuel comes from the shape of the
    /// condition (a Tie proof has to show it adequate: running out of it is a panic):
    ///   `!x.is_empty()` on a byte slice `x`  →  `x.len() + 1`
    fn while_loop(&mut self, w: &ExprWhile) -> R<()> {
        if self.closure {
            return Err("nested loop".into());
        }
        if w.label.is_some() {
            return Err("labelled loop".into());
        }
        let fuel = match &*w.cond {
            Expr::Unary(u) if matches!(u.op, UnOp::Not(_)) => match &*u.expr {
                Expr::MethodCall(m) if m.method == "is_empty" && m.args.is_empty() => match path_ident(&m.receiver) {
                    Some(x) if self.vars.get(&x) == Some(&LTy::Bytes) => format!("(List.length {x} + 1)"),
                    _ => return Err("while condition (no fuel rule)".into()),
                },
                _ => return Err("while condition (no fuel rule)".into()),
            },
            _ => return Err("while condition (no fuel rule)".into()),
        };
        let carried = self.carried_of(&w.body, &[]);
        let pat = Self::tuple_pat(&carried);
        let (cond, _) = self.pure_expr(&w.cond)?;
        let res = self.fresh();
        let ex = self.exit(&self.panic_res());
        self.emit(format!("let some {res} := Rs.L.whileLoop {fuel} {pat} (fun {pat} => {cond}) (fun {pat} => do"));
        self.ind += 2;
        for c in &carried {
            self.emit(format!("let mut {c} := {c}"));
        }
        let saved_vars = self.vars.clone();
        self.closure = true;
        let r = self.block(&w.body, false);
        self.closure = false;
        self.vars = saved_vars;
        if r?.is_some() {
            return Err("loop body with a value".into());
        }
        self.emit(format!("pure {pat})"));
        self.ind -= 1;
        self.emit(format!("| {ex}"));
        self.ind -= 1;
        if !carried.is_empty() {
            self.emit(format!("{pat} := {res}"));
        }
        Ok(())
    }

    /// `for (a, b) in xs[..].iter_mut().zip(ys[..].iter()) { body }`: the body may assign `*a` and read `*b`
    fn for_zip(&mut self, f: &ExprForLoop) -> R<()> {
        let (va, vb) = match &*f.pat {
            Pat::Tuple(t) if t.elems.len() == 2 => match (&t.elems[0], &t.elems[1]) {
                (Pat::Ident(a), Pat::Ident(b)) if a.by_ref.is_none() && b.by_ref.is_none() => (a.ident.to_string(), b.ident.to_string()),
                _ => return Err("for pattern".into()),
            },
            _ => return Err("for pattern".into()),
        };
        let (xs, ys) = match &*f.expr {
            Expr::MethodCall(z) if z.method == "zip" && z.args.len() == 1 => {
                let xs = match &*z.receiver {
                    Expr::MethodCall(m) if m.method == "iter_mut" && m.args.is_empty() => &*m.receiver,
                    _ => return Err("zip receiver other than `.iter_mut()`".into()),
                };
                let ys = match &z.args[0] {
                    Expr::MethodCall(m) if m.method == "iter" && m.args.is_empty() => &*m.receiver,
                    _ => return Err("zip argument other than `.iter()`".into()),
                };
                (xs, ys)
            }
            _ => return Err("for loop over a tuple pattern that is not a `zip`".into()),
        };
        if self.closure {
            return Err("nested loop".into());
        }
        let (src, wb) = self.buf_arg(xs)?;
        let (other, ot) = self.expr(ys)?;
        if ot != LTy::Bytes {
            return Err("zip over a non-byte container".into());
        }
        let carried = self.carried_of(&f.body, &[va.clone(), vb.clone()]);
        let pat = Self::tuple_pat(&carried);
        let (nb, ns) = (self.fresh(), self.fresh());
        let ex = self.exit(&self.panic_res());
        self.emit(format!("let some ({nb}, {ns}) := Rs.L.iterMutZip {src} {other} {pat} (fun {pat} {va} {vb} => do"));
        self.ind += 2;
        for c in &carried {
            self.emit(format!("let mut {c} := {c}"));
        }
        self.emit(format!("let mut {va} := {va}"));
        let saved_vars = self.vars.clone();
        self.vars.insert(va.clone(), LTy::Int("UInt8".into()));
        self.vars.insert(vb.clone(), LTy::Int("UInt8".into()));
        self.closure = true;
        self.deref_var = Some(va.clone());
        self.deref_ro = vec![vb.clone()];
        let r = self.block(&f.body, false);
        self.closure = false;
        self.deref_var = None;
        self.deref_ro = vec![];
        self.vars = saved_vars;
        if r?.is_some() {
            return Err("loop body with a value".into());
        }
        self.emit(format!("pure ({va}, {pat}))"));
        self.ind -= 1;
        self.emit(format!("| {ex}"));
        self.ind -= 1;
        if !carried.is_empty() {
            self.emit(format!("{pat} := {ns}"));
        }
        self.write_back(wb, nb)
    }
}
