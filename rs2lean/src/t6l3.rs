// Part of t6l.rs (included; helper t6l3): `match` on an `Option` and on a `char` / integer with literal
// patterns, a `match` in operand position, `matches!`, `.filter(|x| ..)`, `&s[a..b]` on a `str`.

impl<'a> LTr<'a> {
    /// `&s[a..b]` on a `str`: the byte slice; a bad range or an end inside a character is a panic
    fn str_slice_of(&mut self, base: &str, r: &ExprRange) -> R<String> {
        if !matches!(r.limits, RangeLimits::HalfOpen(_)) {
            return Err("inclusive range".into());
        }
        let lo = match &r.start {
            Some(s) => Some(self.expr(s)?.0),
            None => None,
        };
        let hi = match &r.end {
            Some(s) => Some(self.expr(s)?.0),
            None => None,
        };
        let rhs = match (&lo, &hi) {
            (Some(l), Some(h)) => format!("Rs.Str.slice {base} {l} {h}"),
            (None, Some(h)) => format!("Rs.Str.slice {base} 0 {h}"),
            (Some(l), None) => format!("Rs.Str.slice {base} {l} (Rs.len {base})"),
            (None, None) => return Ok(base.to_string()),
        };
        Ok(self.opt_tmp(&rhs))
    }

    /// the value of a match arm: its statements, then `pure value`; the type of the value
    fn arm_value(&mut self, body: &Expr, value: bool) -> R<LTy> {
        if !value {
            self.arm_body(body, false)?;
            return Ok(LTy::Unit);
        }
        self.ind += 1;
        let saved = self.vars.clone();
        let (v, t) = match body {
            Expr::Block(b) => {
                let (last, init) = b.block.stmts.split_last().ok_or("arm without a value")?;
                for s in init {
                    self.stmt(s)?;
                }
                match last {
                    Stmt::Expr(e, None) => self.expr(e)?,
                    _ => return Err("arm without a value".into()),
                }
            }
            e if diverges(e) => return Err("diverging arm of a value match".into()),
            e => self.expr(e)?,
        };
        self.emit(format!("pure {v}"));
        self.vars = saved;
        self.ind -= 1;
        Ok(t)
    }

    /// `match opt { Some(x) => a, None => b }`
    fn match_opt(&mut self, m: &ExprMatch, scrut: &str, inner: &LTy, lhs: Option<&str>) -> R<LTy> {
        let value = lhs.is_some();
        self.emit(match lhs {
            Some(l) => format!("{l} ← match {scrut} with"),
            None => format!("match {scrut} with"),
        });
        let mut ty = LTy::Unknown;
        for a in &m.arms {
            if a.guard.is_some() {
                return Err("guard on an Option arm".into());
            }
            let saved = self.vars.clone();
            match &a.pat {
                Pat::TupleStruct(ts) if path_last(&ts.path) == "Some" && ts.elems.len() == 1 => match &ts.elems[0] {
                    Pat::Ident(id) if id.subpat.is_none() && id.by_ref.is_none() && id.mutability.is_none() => {
                        self.emit(format!("| some {} =>", id.ident));
                        self.vars.insert(id.ident.to_string(), inner.clone());
                    }
                    Pat::Wild(_) => self.emit("| some _ =>".into()),
                    _ => return Err("nested pattern".into()),
                },
                Pat::Ident(id) if id.ident == "None" && id.subpat.is_none() => self.emit("| none =>".into()),
                Pat::Path(p) if path_last(&p.path) == "None" => self.emit("| none =>".into()),
                Pat::Wild(_) => self.emit("| _ =>".into()),
                _ => return Err("pattern on an Option".into()),
            }
            let t = self.arm_value(&a.body, value)?;
            self.vars = saved;
            if ty == LTy::Unknown {
                ty = t;
            } else if t != LTy::Unknown && t != ty {
                return Err("match arms of different types".into());
            }
        }
        Ok(ty)
    }

    /// `match x { lit => a, …, _ => z }` on a `char` or an integer: an if-chain, the arms in order
    fn match_lit(&mut self, m: &ExprMatch, scrut: &str, lhs: Option<&str>) -> R<LTy> {
        let value = lhs.is_some();
        let n = m.arms.len();
        let mut ty = LTy::Unknown;
        for (i, a) in m.arms.iter().enumerate() {
            if a.guard.is_some() {
                return Err("guard on a literal arm".into());
            }
            let cond = match &a.pat {
                Pat::Lit(l) => {
                    let (lv, _) = self.pure_expr(&Expr::Lit(ExprLit { attrs: vec![], lit: l.lit.clone() }))?;
                    Some(format!("({scrut} == {lv})"))
                }
                Pat::Wild(_) if i + 1 == n => None,
                _ => return Err("pattern of a literal match".into()),
            };
            if i + 1 == n && cond.is_some() {
                return Err("literal match without a final `_` arm".into());
            }
            let head = match (i, lhs) {
                (0, Some(l)) => format!("{l} ← "),
                (0, None) => String::new(),
                _ => "else ".into(),
            };
            if i > 0 {
                self.ind += 1;
            }
            match &cond {
                Some(c) => self.emit(format!("{head}if {c} then")),
                None if i == 0 => return Err("literal match with a single `_` arm".into()),
                None => self.emit("else".into()),
            }
            if i > 0 {
                self.ind -= 1;
            }
            self.ind += 1;
            let t = self.arm_value(&a.body, value)?;
            self.ind -= 1;
            if ty == LTy::Unknown {
                ty = t;
            } else if t != LTy::Unknown && t != ty {
                return Err("match arms of different types".into());
            }
        }
        Ok(ty)
    }

    /// a pattern of a vocabulary enum without bindings
    fn ext_pat(&self, p: &Pat, variants: &[(String, Vec<LTy>)]) -> R<String> {
        match p {
            Pat::Or(o) => Ok(o.cases.iter().map(|c| self.ext_pat(c, variants)).collect::<R<Vec<_>>>()?.join(" | ")),
            Pat::Path(pp) => {
                let v = path_last(&pp.path);
                let (_, tys) = variants.iter().find(|(n, _)| *n == v).ok_or(format!("unknown variant {v}"))?;
                if !tys.is_empty() {
                    return Err("variant arity".into());
                }
                Ok(format!(".{v}"))
            }
            Pat::TupleStruct(ts) => {
                let v = path_last(&ts.path);
                let (_, tys) = variants.iter().find(|(n, _)| *n == v).ok_or(format!("unknown variant {v}"))?;
                let wild_rest = ts.elems.len() == 1 && matches!(&ts.elems[0], Pat::Rest(_));
                if !wild_rest && (tys.len() != ts.elems.len() || !ts.elems.iter().all(|e| matches!(e, Pat::Wild(_)))) {
                    return Err("binding or nested pattern in matches!".into());
                }
                Ok(format!(".{v}{}", " _".repeat(tys.len())))
            }
            _ => Err("pattern in matches!".into()),
        }
    }

    /// `matches!(e, pat)` on a vocabulary enum
    fn matches_macro(&mut self, m: &Macro) -> R<(String, LTy)> {
        let (e, p) = m
            .parse_body_with(|input: syn::parse::ParseStream| {
                let e: Expr = input.parse()?;
                input.parse::<Token![,]>()?;
                let p = Pat::parse_multi_with_leading_vert(input)?;
                if !input.is_empty() {
                    return Err(input.error("guard or trailing tokens in matches!"));
                }
                Ok((e, p))
            })
            .map_err(|e| e.to_string())?;
        let (v, t) = self.pure_expr(&e)?;
        let variants = match &t {
            LTy::Ext(en) => ext_enum(en).ok_or("matches! on a value that is not a vocabulary enum")?,
            _ => return Err("matches! on a value that is not a vocabulary enum".into()),
        };
        let pat = self.ext_pat(&p, &variants)?;
        Ok((format!("(match {v} with | {pat} => true | _ => false)"), LTy::Bool))
    }

    /// `list.filter(|x| cond)`: `x` is a reference to the element
    fn filter(&mut self, xs: &str, elem: &LTy, clo: &Expr) -> R<(String, LTy)> {
        let c = match clo {
            Expr::Closure(c) if c.inputs.len() == 1 && c.capture.is_none() => c,
            _ => return Err("filter argument".into()),
        };
        let name = match &c.inputs[0] {
            Pat::Ident(id) if id.by_ref.is_none() && id.mutability.is_none() && id.subpat.is_none() => id.ident.to_string(),
            _ => return Err("filter closure parameter".into()),
        };
        let saved = self.vars.clone();
        self.vars.insert(name.clone(), elem.clone());
        self.ref_vars.push(name.clone());
        let r = self.pure_expr(&c.body);
        self.ref_vars.pop();
        self.vars = saved;
        let (b, t) = r?;
        if t != LTy::Bool {
            return Err("filter closure that is not a condition".into());
        }
        Ok((format!("(List.filter (fun {name} => {b}) {xs})"), LTy::List(Box::new(elem.clone()))))
    }

    /// `if c { a } else { b }` in tail position of the function body: every branch ends the function
    fn if_tail(&mut self, i: &ExprIf) -> R<()> {
        if matches!(&*i.cond, Expr::Let(_)) {
            return Err("if let".into());
        }
        let (c, _) = self.expr(&i.cond)?;
        self.emit(format!("if {c} then"));
        self.tail_block(&i.then_branch)?;
        let (_, els) = i.else_branch.as_ref().ok_or("value `if` without else")?;
        self.emit("else".into());
        match &**els {
            Expr::Block(b) => self.tail_block(&b.block)?,
            Expr::If(j) => {
                self.ind += 1;
                self.if_tail(j)?;
                self.ind -= 1;
            }
            _ => return Err("else branch".into()),
        }
        Ok(())
    }

    fn tail_block(&mut self, b: &Block) -> R<()> {
        self.ind += 1;
        let saved = self.vars.clone();
        let before = self.lines.len();
        if let Some(v) = self.block(b, true)? {
            let e = self.exit(&v);
            self.emit(e);
        } else if self.lines.len() == before {
            return Err("branch without a value".into());
        }
        self.vars = saved;
        self.ind -= 1;
        Ok(())
    }

    /// `match x { E::A => a, E::B => b }` on an enum of the main translation whose variants carry nothing
    fn match_unit_enum(&mut self, m: &ExprMatch, scrut: &str, en: &str, lhs: Option<&str>) -> R<LTy> {
        let value = lhs.is_some();
        let variants = self.reg.enums.get(en).cloned().ok_or("unknown enum")?;
        self.emit(match lhs {
            Some(l) => format!("{l} ← match {scrut} with"),
            None => format!("match {scrut} with"),
        });
        let mut ty = LTy::Unknown;
        for a in &m.arms {
            if a.guard.is_some() {
                return Err("guard on an enum arm".into());
            }
            let pat = match &a.pat {
                Pat::Path(p) if p.path.segments.len() >= 2 && p.path.segments[p.path.segments.len() - 2].ident == en => {
                    let v = path_last(&p.path);
                    if !variants.iter().any(|(n, _)| *n == v) {
                        return Err(format!("unknown variant {v}"));
                    }
                    format!("Gen.{en}.{v}")
                }
                Pat::Wild(_) => "_".to_string(),
                _ => return Err("enum pattern".into()),
            };
            self.emit(format!("| {pat} =>"));
            let t = self.arm_value(&a.body, value)?;
            if ty == LTy::Unknown {
                ty = t;
            } else if t != LTy::Unknown && t != ty {
                return Err("match arms of different types".into());
            }
        }
        Ok(ty)
    }

    /// calls that involve an `AesKind` type: `C::Cipher::new(GenericArray::from_slice(key))` inside the generic key
    /// stream, and `[module::]Type::<Kind>::f(args)` of a translated generic function
    fn kind_calls(&mut self, c: &ExprCall, segs: &[String], args: &[&Expr]) -> R<Option<(String, LTy)>> {
        let path = match &*c.func {
            Expr::Path(p) => &p.path,
            _ => return Ok(None),
        };
        // `C::Cipher::new(GenericArray::from_slice(key))`: `from_slice` asserts the key length of the cipher
        if segs.len() == 3 && segs[1] == "Cipher" && segs[2] == "new" && args.len() == 1 {
            let cp = &segs[0];
            if !self.sig.tparams.iter().any(|(n, b)| n == cp && b.iter().any(|x| x == "Cipher:KeyInit")) {
                return Err(format!("`{cp}::Cipher::new` without the bound `{cp}::Cipher: KeyInit`"));
            }
            let key = match args[0] {
                Expr::Call(k) if k.args.len() == 1 && matches!(&*k.func, Expr::Path(p) if path_segs(&p.path) == ["GenericArray", "from_slice"]) => &k.args[0],
                _ => return Err("key of a cipher that is not `GenericArray::from_slice(..)`".into()),
            };
            let (kv, kt) = self.expr(key)?;
            if kt != LTy::Bytes {
                return Err("key that is not a byte slice".into());
            }
            let v = self.opt_tmp(&format!("Rs.AesBlock.new {cp} {kv}"));
            return Ok(Some((v, LTy::Ext("Rs.AesBlock".into()))));
        }
        // `[module::]Type::<Kind>::f(args)`
        let n = path.segments.len();
        if n >= 2 {
            let tseg = &path.segments[n - 2];
            let kinds: Vec<String> = generic_args(tseg).iter().filter_map(|t| match t { Type::Path(p) => Some(path_last(&p.path)), _ => None }).collect();
            if !kinds.is_empty() {
                let key = format!("{}::{}", tseg.ident, segs[n - 1]);
                if self.failed.contains(&key) {
                    return Err(format!("call of untranslated {key}"));
                }
                let s = match self.lreg.fns.get(&key) {
                    Some(s) => s,
                    // not a translated function: the vocabulary tables decide
                    None => return Ok(None),
                };
                if kinds.len() != s.tparams.len() || kinds.iter().any(|k| !self.lreg.kinds.contains(k) || self.failed.contains(k)) {
                    return Err("type arguments that are not translated kinds".into());
                }
                let targs: String = s.tparams.iter().zip(kinds.iter()).map(|((p, _), k)| format!(" ({p} := Gen.{k})")).collect();
                let r = self.call_lfn(&format!("Gen.{}.{}{targs}", tseg.ident, segs[n - 1]), s, None, args)?;
                // the result's type parameter is the kind
                let r = match r {
                    (v, LTy::Adt(t, _)) => (v, LTy::Adt(t, kinds.iter().map(|k| LTy::Adt(k.clone(), vec![])).collect())),
                    other => other,
                };
                return Ok(Some(r));
            }
        }
        Ok(None)
    }

    /// `opt.map_or(default, |x| body)` with a pure body
    fn map_or(&mut self, recv: &str, inner: &LTy, default: &Expr, clo: &Expr) -> R<(String, LTy)> {
        let c = match clo {
            Expr::Closure(c) if c.inputs.len() == 1 && c.capture.is_none() => c,
            _ => return Err("map_or argument".into()),
        };
        let name = match &c.inputs[0] {
            Pat::Ident(id) if id.by_ref.is_none() && id.mutability.is_none() && id.subpat.is_none() => id.ident.to_string(),
            _ => return Err("map_or closure parameter".into()),
        };
        let (d, dt) = self.pure_expr(default)?;
        let saved = self.vars.clone();
        self.vars.insert(name.clone(), inner.clone());
        let r = self.pure_expr(&c.body);
        self.vars = saved;
        let (b, bt) = r?;
        let t = if bt != LTy::Unknown { bt } else { dt };
        Ok((format!("(match {recv} with | some {name} => {b} | none => {d})"), t))
    }
}

/// does the `if` produce a value (its first branch ends in an expression that is not a statement)?
fn value_if(i: &ExprIf) -> bool {
    i.else_branch.is_some()
        && match i.then_branch.stmts.last() {
            Some(Stmt::Expr(e, None)) => match e {
                Expr::If(j) => value_if(j),
                Expr::Return(_) | Expr::ForLoop(_) | Expr::While(_) | Expr::Assign(_) | Expr::Block(_) => false,
                Expr::Binary(b) if is_assign_op(&b.op) => false,
                Expr::Match(_) => false,
                Expr::Tuple(t) if t.elems.is_empty() => false,
                _ => true,
            },
            _ => false,
        }
}
