// Part of t6l.rs (included): expressions, calls, `match`, `for … iter_mut()`.

/// how a `&mut [u8]` argument is written back after the call
enum WriteBack {
    Whole(Place),
    From(Place, String),
}

/// roots of assignment targets and of method-call receivers in a loop body
struct Mutated {
    out: Vec<String>,
}
impl<'ast> syn::visit::Visit<'ast> for Mutated {
    fn visit_expr_assign(&mut self, a: &'ast ExprAssign) {
        if let Some(r) = place_root(&a.left) {
            self.out.push(r);
        }
        syn::visit::visit_expr_assign(self, a);
    }
    fn visit_expr_binary(&mut self, b: &'ast ExprBinary) {
        if is_assign_op(&b.op) {
            if let Some(r) = place_root(&b.left) {
                self.out.push(r);
            }
        }
        syn::visit::visit_expr_binary(self, b);
    }
    fn visit_expr_method_call(&mut self, m: &'ast ExprMethodCall) {
        if let Some(r) = place_root(&m.receiver) {
            self.out.push(r);
        }
        syn::visit::visit_expr_method_call(self, m);
    }
    fn visit_expr_reference(&mut self, r: &'ast ExprReference) {
        if r.mutability.is_some() {
            if let Some(n) = place_root(&r.expr) {
                self.out.push(n);
            }
        }
        syn::visit::visit_expr_reference(self, r);
    }
}

fn place_root(e: &Expr) -> Option<String> {
    match e {
        Expr::Path(p) if p.path.segments.len() == 1 => Some(path_last(&p.path)),
        Expr::Field(f) => place_root(&f.base),
        Expr::Index(i) => place_root(&i.expr),
        Expr::Paren(p) => place_root(&p.expr),
        Expr::Reference(r) => place_root(&r.expr),
        // `x.as_mut()`: a view of the same place
        Expr::MethodCall(m) if m.method == "as_mut" && m.args.is_empty() => place_root(&m.receiver),
        _ => None,
    }
}

fn path_segs(p: &Path) -> Vec<String> {
    p.segments.iter().map(|s| s.ident.to_string()).collect()
}

impl<'a> LTr<'a> {
    fn int(&self, t: &str) -> LTy {
        LTy::Int(t.into())
    }

    /// translate an expression that must not emit statements (right operand of `&&`, a guard)
    fn pure_expr(&mut self, e: &Expr) -> R<(String, LTy)> {
        let n = self.lines.len();
        let r = self.expr(e)?;
        if self.lines.len() != n {
            return Err("operand with effects in a short-circuit position".into());
        }
        Ok(r)
    }

    fn expr(&mut self, e: &Expr) -> R<(String, LTy)> {
        match e {
            Expr::Lit(ExprLit { lit: Lit::Int(i), .. }) => {
                let (body, sfx) = lit_str(i);
                match sfx.as_deref().and_then(prim_ty) {
                    Some(t) => Ok((format!("({body} : {t})"), self.int(t))),
                    None => Ok((body, LTy::Unknown)),
                }
            }
            Expr::Lit(ExprLit { lit: Lit::Bool(b), .. }) => Ok((format!("{}", b.value), LTy::Bool)),
            Expr::Lit(ExprLit { lit: Lit::Char(c), .. }) => Ok((format!("(Char.ofNat {})", c.value() as u32), LTy::Int("Char".into()))),
            Expr::Paren(p) => self.expr(&p.expr),
            Expr::Group(g) => self.expr(&g.expr),
            Expr::Reference(r) => self.expr(&r.expr),
            Expr::Path(p) => {
                let segs = path_segs(&p.path);
                if segs.len() == 1 {
                    let n = &segs[0];
                    if let Some(t) = self.vars.get(n) {
                        return Ok((n.clone(), t.clone()));
                    }
                    if self.reg.consts.contains(n) && !self.failed.contains(n) {
                        let t = self.reg.const_ty.get(n).map(|t| lean_to_lty(t)).unwrap_or(LTy::Unknown);
                        return Ok((format!("Gen.{n}"), t));
                    }
                    if n == "None" {
                        return Ok(("none".into(), LTy::Unknown));
                    }
                    if n == "DateTimeRangeError" {
                        // a unit structure of the vocabulary
                        return Ok(("Rs.DateTimeRangeError.mk".into(), LTy::Ext("Rs.DateTimeRangeError".into())));
                    }
                }
                if segs.len() >= 2 && segs[segs.len() - 2] == "path" && segs[segs.len() - 1] == "MAIN_SEPARATOR" {
                    // `std::path::MAIN_SEPARATOR` (Unix host)
                    return Ok(("Rs.Path.MAIN_SEPARATOR".into(), LTy::Int("Char".into())));
                }
                if segs.len() == 2 {
                    if let Some(vs) = self.lreg.enums.get(&segs[0]) {
                        if vs.iter().any(|(v, tys)| *v == segs[1] && tys.is_empty()) {
                            return Ok((format!("Gen.{}.{}", segs[0], segs[1]), LTy::Adt(segs[0].clone(), vec![])));
                        }
                    }
                }
                Err(format!("path {}", segs.join("::")))
            }
            Expr::Field(_) => {
                let p = self.place(e)?;
                Ok((p.term(), p.ty))
            }
            Expr::Unary(u) => match u.op {
                UnOp::Not(_) => {
                    let (v, t) = self.expr(&u.expr)?;
                    if t == LTy::Bool || t == LTy::Unknown {
                        Ok((format!("(!{v})"), LTy::Bool))
                    } else {
                        Err("bitwise `!`".into())
                    }
                }
                UnOp::Deref(_) => {
                    let n = path_ident(&u.expr).ok_or("deref")?;
                    if self.deref_var.as_deref() == Some(&n) || self.deref_ro.contains(&n) {
                        Ok((n, self.int("UInt8")))
                    } else if self.ref_vars.contains(&n) {
                        let t = self.vars.get(&n).cloned().ok_or("deref")?;
                        Ok((n, t))
                    } else {
                        Err("deref of a reference".into())
                    }
                }
                _ => Err("unary operator".into()),
            },
            Expr::Cast(c) => {
                let t = lty(&c.ty, &[], None, self.reg, self.lreg);
                if t == LTy::Ext("Rs.AesDyn.Cipher".into()) {
                    // `Box::new(x) as Box<dyn AesCipher>`: the implementor's value as a member of the trait object type
                    return match &*c.expr {
                        Expr::Call(b) if b.args.len() == 1 && matches!(&*b.func, Expr::Path(p) if path_segs(&p.path) == ["Box", "new"]) => {
                            let (v, vt) = self.expr(&b.args[0])?;
                            if !matches!(&vt, LTy::Adt(n, _) if n == "AesCtrZipKeyStream") {
                                return Err("boxed value that is not a key stream".into());
                            }
                            Ok((format!("(Rs.AesBox.box {v})"), t))
                        }
                        _ => Err("cast to a trait object of something other than `Box::new(..)`".into()),
                    };
                }
                let (v, _) = self.expr(&c.expr)?;
                match &t {
                    LTy::Int(n) => Ok((format!("(Rs.as' {n} {v})"), t.clone())),
                    _ => Err("cast target".into()),
                }
            }
            Expr::Binary(b) => self.binary(b),
            Expr::Index(ix) => {
                let (base, bt) = self.expr(&ix.expr)?;
                if bt == LTy::Str {
                    return match &*ix.index {
                        Expr::Range(r) => Ok((self.str_slice_of(&base, r)?, LTy::Str)),
                        _ => Err("index on a str".into()),
                    };
                }
                if bt != LTy::Bytes {
                    return Err("index on a non-byte container".into());
                }
                if let Expr::Range(r) = &*ix.index {
                    let (v, _lo) = self.slice_of(&base, r)?;
                    return Ok((v, LTy::Bytes));
                }
                let (i, _) = self.expr(&ix.index)?;
                let t = self.opt_tmp(&format!("Rs.L.idx {base} {i}"));
                Ok((t, self.int("UInt8")))
            }
            Expr::Repeat(r) => {
                let (n, _) = self.expr(&r.len)?;
                if !matches!(&*r.expr, Expr::Lit(ExprLit { lit: Lit::Int(i), .. }) if i.base10_parse::<u64>().ok() == Some(0)) {
                    return Err("array initialiser other than 0".into());
                }
                Ok((format!("(Rs.vecZeros {n})"), LTy::Bytes))
            }
            Expr::Macro(m) if path_last(&m.mac.path) == "vec" => {
                let ts = &m.mac.tokens;
                let r: ExprRepeat = syn::parse2(quote::quote!([#ts])).map_err(|e| e.to_string())?;
                self.expr(&Expr::Repeat(r))
            }
            Expr::Tuple(t) if t.elems.is_empty() => Ok(("()".into(), LTy::Unit)),
            Expr::Tuple(t) => {
                let mut vs = vec![];
                let mut ts = vec![];
                for e in &t.elems {
                    let (v, ty) = self.expr(e)?;
                    vs.push(v);
                    ts.push(ty);
                }
                Ok((format!("({})", vs.join(", ")), LTy::Tup(ts)))
            }
            Expr::Macro(m) if path_last(&m.mac.path) == "matches" => self.matches_macro(&m.mac),
            Expr::Match(m) => {
                // a `match` in operand position: its value is bound first
                let t = self.fresh();
                let ty = self.match_arms(m, Some(&format!("let {t}")))?;
                Ok((t, ty))
            }
            Expr::Struct(s) => self.struct_lit(s),
            Expr::MethodCall(m) => self.method_call(m),
            Expr::Call(c) => self.call(c),
            Expr::Try(t) => {
                let (res, ty) = self.expr(&t.expr)?;
                if let (LTy::Opt(inner), LTy::Opt(_)) = (&ty, &self.sig.ret) {
                    // `opt?` in a function returning `Option`: `None` is the function's result
                    let v = self.fresh();
                    if self.closure && self.loop_ret {
                        self.emit(format!("let some {v} := {res} | return (Rs.Step.ret none)"));
                    } else if self.closure {
                        return Err("`?` inside a loop body".into());
                    } else {
                        let e = self.exit("some none");
                        self.emit(format!("let some {v} := {res} | {e}"));
                    }
                    return Ok((v, (**inner).clone()));
                }
                if let (LTy::Res(inner, e), LTy::Res(_, fe)) = (&ty, &self.sig.ret) {
                    // `res?` in a function returning a `Result` with the SAME error type (`From` is the identity)
                    if e != fe {
                        return Err("`?` that converts the error type".into());
                    }
                    if self.closure {
                        return Err("`?` inside a loop body".into());
                    }
                    let (v, x, err) = (self.fresh(), self.fresh(), self.fresh());
                    let ex = self.exit(&format!("some (Except.error {err})"));
                    self.emit(format!("let {v} ← match {res} with"));
                    self.emit(format!("  | .ok {x} => pure {x}"));
                    self.emit(format!("  | .error {err} => {ex}"));
                    return Ok((v, (**inner).clone()));
                }
                let inner = match ty {
                    LTy::Io(t) => *t,
                    _ => return Err("`?` on a value that is not an io::Result".into()),
                };
                let v = self.fresh();
                self.bind_try(&v, &res)?;
                Ok((v, inner))
            }
            _ => Err(format!("expression at line {}", e.span().start().line)),
        }
    }

    /// `base[range]`: the slice (bound, a bad range is a panic) and its start
    fn slice_of(&mut self, base: &str, r: &ExprRange) -> R<(String, String)> {
        if !matches!(r.limits, RangeLimits::HalfOpen(_)) {
            return Err("inclusive range".into());
        }
        let lo = match &r.start {
            Some(s) => Some(self.expr(s)?.0),
            None => None,
        };
        let hi = match &r.end {
            Some(s) => Some(self.expr(s)?.0),
            None => None,
        };
        let rhs = match (&lo, &hi) {
            (Some(l), Some(h)) => format!("Rs.slice {base} {l} {h}"),
            (None, Some(h)) => format!("Rs.sliceTo {base} {h}"),
            (Some(l), None) => format!("Rs.sliceFrom {base} {l}"),
            (None, None) => return Ok((base.to_string(), "0".into())),
        };
        let t = self.opt_tmp(&rhs);
        Ok((t, lo.unwrap_or_else(|| "0".into())))
    }

    fn binary(&mut self, b: &ExprBinary) -> R<(String, LTy)> {
        use BinOp::*;
        if let Shl(_) | Shr(_) = b.op {
            let (l, lt) = self.expr(&b.left)?;
            let n = match &*b.right {
                Expr::Lit(ExprLit { lit: Lit::Int(i), .. }) => lit_str(i).0,
                _ => return Err("shift by a non-literal".into()),
            };
            let f = if matches!(b.op, Shl(_)) { "shl" } else { "shr" };
            let t = self.opt_tmp(&format!("Rs.Arith.{f} {l} {n}"));
            return Ok((t, lt));
        }
        if let And(_) | Or(_) = b.op {
            let (l, _) = self.expr(&b.left)?;
            let (r, _) = self.pure_expr(&b.right)?;
            let op = if matches!(b.op, And(_)) { "&&" } else { "||" };
            return Ok((format!("({l} {op} {r})"), LTy::Bool));
        }
        let (l, lt) = self.expr(&b.left)?;
        let (r, rt) = self.expr(&b.right)?;
        let ty = if lt != LTy::Unknown { lt.clone() } else { rt.clone() };
        match b.op {
            Add(_) | Sub(_) | Mul(_) | Div(_) | Rem(_) => {
                let f = match b.op {
                    Add(_) => "add",
                    Sub(_) => "sub",
                    Div(_) => "div",
                    Rem(_) => "rem",
                    _ => "mul",
                };
                let t = self.opt_tmp(&format!("Rs.Arith.{f} {l} {r}"));
                Ok((t, ty))
            }
            BitXor(_) => Ok((format!("({l} ^^^ {r})"), ty)),
            BitAnd(_) => Ok((format!("({l} &&& {r})"), ty)),
            BitOr(_) => Ok((format!("({l} ||| {r})"), ty)),
            Eq(_) | Ne(_) => {
                let eq = if ty == LTy::Bytes { format!("(Rs.L.bytesEq {l} {r})") } else { format!("({l} == {r})") };
                if matches!(b.op, Eq(_)) {
                    Ok((eq, LTy::Bool))
                } else if ty == LTy::Bytes {
                    Ok((format!("(!{eq})"), LTy::Bool))
                } else {
                    Ok((format!("({l} != {r})"), LTy::Bool))
                }
            }
            Lt(_) => Ok((format!("(decide ({l} < {r}))"), LTy::Bool)),
            Le(_) => Ok((format!("(decide ({l} ≤ {r}))"), LTy::Bool)),
            Gt(_) => Ok((format!("(decide ({l} > {r}))"), LTy::Bool)),
            Ge(_) => Ok((format!("(decide ({l} ≥ {r}))"), LTy::Bool)),
            _ => Err("binary operator".into()),
        }
    }

    fn struct_lit(&mut self, s: &ExprStruct) -> R<(String, LTy)> {
        if s.rest.is_some() {
            return Err("struct update syntax".into());
        }
        let n = path_last(&s.path);
        let ty = if n == "Self" {
            self.self_ty.clone()
        } else if let Some(st) = self.lreg.structs.get(&n) {
            LTy::Adt(n.clone(), st.params.iter().map(|_| LTy::Unknown).collect())
        } else if self.reg.structs.contains(&n) {
            // a structure of the main translation
            LTy::Adt(n.clone(), vec![])
        } else {
            return Err(format!("struct literal of {n}"));
        };
        let mut fs = vec![];
        for f in &s.fields {
            let name = match &f.member {
                Member::Named(i) => i.to_string(),
                _ => return Err("tuple struct literal".into()),
            };
            let (v, _) = self.expr(&f.expr)?;
            fs.push(format!("{name} := {v}"));
        }
        Ok((format!("({{ {} }} : {})", fs.join(", "), ty.lean()), ty))
    }

    /// the value of a `&mut [u8]` argument and how to write the callee's version back
    fn buf_arg(&mut self, a: &Expr) -> R<(String, WriteBack)> {
        let a = match a {
            Expr::Reference(r) => &*r.expr,
            // `GenericArray::from_mut_slice(&mut x)`: the same bytes viewed as a block; its length
            // assertion is part of the vocabulary of the method that receives the block
            Expr::Call(c) if c.args.len() == 1 && matches!(&*c.func, Expr::Path(p) if path_segs(&p.path) == ["GenericArray", "from_mut_slice"]) => match &c.args[0] {
                Expr::Reference(r) => &*r.expr,
                other => other,
            },
            other => other,
        };
        if let Expr::Index(ix) = a {
            let p = self.place(&ix.expr)?;
            if p.ty != LTy::Bytes {
                return Err("buffer argument".into());
            }
            if let Expr::Range(r) = &*ix.index {
                let (v, lo) = self.slice_of(&p.term(), r)?;
                return Ok((v, WriteBack::From(p, lo)));
            }
            return Err("buffer argument".into());
        }
        let p = self.place(a)?;
        if p.ty != LTy::Bytes {
            return Err("buffer argument".into());
        }
        Ok((p.term(), WriteBack::Whole(p)))
    }

    fn write_back(&mut self, wb: WriteBack, new: String) -> R<()> {
        match wb {
            WriteBack::Whole(p) => self.store(&p, new),
            WriteBack::From(p, lo) => {
                let v = format!("Rs.L.splice {} {lo} {new}", p.term());
                self.store(&p, v)
            }
        }
    }

    fn has_bound(&self, ty: &LTy, bound: &str) -> bool {
        matches!(ty, LTy::Param(p) if self.sig.tparams.iter().any(|(n, b)| n == p && b.iter().any(|x| x == bound)))
    }

    fn method_call(&mut self, m: &ExprMethodCall) -> R<(String, LTy)> {
        let name = m.method.to_string();
        let args: Vec<&Expr> = m.args.iter().collect();
        // receiver as a place when it is one
        let recv_place = self.place(&m.receiver).ok();
        if let Some(p) = &recv_place {
            // the inner reader / writer
            if self.has_bound(&p.ty, "Read") && (name == "read" || name == "read_exact") && args.len() == 1 {
                let (bv, wb) = self.buf_arg(args[0])?;
                let (r, s, b) = (self.fresh(), self.fresh(), self.fresh());
                self.emit(format!("let ({r}, {s}, {b}) := Rs.L.{name} {} {bv}", p.term()));
                self.store(p, s)?;
                self.write_back(wb, b)?;
                let t = if name == "read" { self.int("UInt64") } else { LTy::Unit };
                return Ok((r, LTy::Io(Box::new(t))));
            }
            if self.has_bound(&p.ty, "Write") && name == "write_all" && args.len() == 1 {
                let (bv, _) = self.expr(args[0])?;
                let (r, s) = (self.fresh(), self.fresh());
                self.emit(format!("let ({r}, {s}) := Rs.L.write_all {} {bv}", p.term()));
                self.store(p, s)?;
                return Ok((r, LTy::Io(Box::new(LTy::Unit))));
            }
            if self.has_bound(&p.ty, "Write") && name == "flush" && args.is_empty() {
                let (r, s) = (self.fresh(), self.fresh());
                self.emit(format!("let ({r}, {s}) := Rs.L.flush {}", p.term()));
                self.store(p, s)?;
                return Ok((r, LTy::Io(Box::new(LTy::Unit))));
            }
            if p.ty == LTy::Path && name == "push" && args.len() == 1 {
                // `PathBuf::push` (named parameter)
                let (v, t) = self.expr(args[0])?;
                if t != LTy::Path && t != LTy::Str {
                    return Err("PathBuf::push of something that is not a path or a str".into());
                }
                self.store(p, format!("(Rs.PathOps.push {} {v})", p.term()))?;
                return Ok(("()".into(), LTy::Unit));
            }
            if p.ty == LTy::Bytes && name == "extend_from_slice" && args.len() == 1 {
                let (v, _) = self.expr(args[0])?;
                self.store(p, format!("({} ++ {v})", p.term()))?;
                return Ok(("()".into(), LTy::Unit));
            }
        }
        // `place.as_mut().write_u128::<LittleEndian>(v)`: `Write for &mut [u8]` on a temporary view of the place
        if name == "write_u128" && args.len() == 1 {
            if let Expr::MethodCall(am) = &*m.receiver {
                if am.method == "as_mut" && am.args.is_empty() {
                    let p = self.place(&am.receiver)?;
                    let le = m.turbofish.as_ref().map_or(false, |t| t.args.len() == 1 && matches!(&t.args[0], GenericArgument::Type(Type::Path(tp)) if path_last(&tp.path) == "LittleEndian"));
                    if p.ty != LTy::Bytes || !le {
                        return Err("write_u128 form".into());
                    }
                    let (v, _) = self.expr(args[0])?;
                    let (r, b) = (self.fresh(), self.fresh());
                    self.emit(format!("let ({r}, {b}) := Rs.L.sliceWriteAll {} (Rs.U128.toLE {v})", p.term()));
                    self.store(&p, b)?;
                    return Ok((r, LTy::Io(Box::new(LTy::Unit))));
                }
            }
            return Err("write_u128 on something other than `place.as_mut()`".into());
        }
        let (recv, rty) = match &recv_place {
            Some(p) => (p.term(), p.ty.clone()),
            None => self.expr(&m.receiver)?,
        };
        // a method of `T` called on a `Cow<T>`: auto-deref (`&*cow`), read-only
        let (recv, rty, recv_place) = match rty {
            LTy::Cow(inner) => (format!("(Rs.Cow.get {recv})"), *inner, None),
            t => (recv, t, recv_place),
        };
        match (&rty, name.as_str()) {
            (LTy::Io(inner), "expect") | (LTy::Io(inner), "unwrap") if args.len() == (name == "expect") as usize => {
                let v = self.opt_tmp(&format!("Rs.IoRes.unwrap {recv}"));
                return Ok((v, (**inner).clone()));
            }
            (LTy::Opt(inner), "expect") | (LTy::Opt(inner), "unwrap") if args.len() == (name == "expect") as usize => {
                let v = self.opt_tmp(&recv);
                return Ok((v, (**inner).clone()));
            }
            (LTy::Bytes, "is_empty") if args.is_empty() => return Ok((format!("(Rs.isEmpty {recv})"), LTy::Bool)),
            (LTy::Bytes, "into_bytes") if args.is_empty() => return Ok((recv, LTy::Bytes)),
            (LTy::Bytes, "len") if args.is_empty() => return Ok((format!("(Rs.len {recv})"), self.int("UInt64"))),
            (LTy::Str, "contains") if args.len() == 1 => {
                // `s.contains(c)` with an ASCII `char` literal: in UTF-8 its byte occurs only as that char
                if let Expr::Lit(ExprLit { lit: Lit::Char(c), .. }) = args[0] {
                    if (c.value() as u32) < 0x80 {
                        return Ok((format!("(Rs.Str.containsAscii {recv} {})", c.value() as u32), LTy::Bool));
                    }
                }
                return Err("contains(..) with something other than an ASCII char literal".into());
            }
            (LTy::Path, "components") if args.is_empty() => {
                return Ok((format!("(Rs.PathOps.components {recv})"), LTy::List(Box::new(LTy::Ext("Rs.Component".into())))));
            }
            (LTy::Str, "find") if args.len() == 1 => {
                // `s.find(c)` with an ASCII `char` literal: the byte index of its first occurrence
                if let Expr::Lit(ExprLit { lit: Lit::Char(c), .. }) = args[0] {
                    if (c.value() as u32) < 0x80 {
                        return Ok((format!("(Rs.Str.findAscii {recv} {})", c.value() as u32), LTy::Opt(Box::new(self.int("UInt64")))));
                    }
                }
                return Err("find(..) with something other than an ASCII char literal".into());
            }
            (LTy::Str, "to_string") if args.is_empty() => return Ok((recv, LTy::Str)),
            // `AtomicU64::load()` of types.rs (a field the main translation holds as its value)
            (LTy::Int(t), "load") if args.is_empty() && t == "UInt64" && recv_place.is_some() => return Ok((recv, rty.clone())),
            // iterators over the characters of a string, as lists
            (LTy::Str, "chars") if args.is_empty() => return Ok((format!("(Rs.Str.chars {recv})"), LTy::List(Box::new(self.int("Char"))))),
            (LTy::List(_), "rev") if args.is_empty() => return Ok((format!("(List.reverse {recv})"), rty.clone())),
            (LTy::List(e), "next") if args.is_empty() && recv_place.is_none() => return Ok((format!("(List.head? {recv})"), LTy::Opt(e.clone()))),
            (LTy::Opt(inner), "map_or") if args.len() == 2 => {
                let inner = (**inner).clone();
                return self.map_or(&recv, &inner, args[0], args[1]);
            }
            (LTy::Int(c), "to_string") if args.is_empty() && c == "Char" => return Ok((format!("(Rs.Str.ofChar {recv})"), LTy::Str)),
            (LTy::Str, "replace") if args.len() == 2 => {
                let (a, at) = self.expr(args[0])?;
                let (b, bt) = self.expr(args[1])?;
                if at != LTy::Str || bt != LTy::Str {
                    return Err("replace(..) with a pattern that is not a str".into());
                }
                return Ok((format!("(Rs.Str.replace {recv} {a} {b})"), LTy::Str));
            }
            (LTy::List(elem), "filter") if args.len() == 1 => {
                let elem = (**elem).clone();
                return self.filter(&recv, &elem, args[0]);
            }
            (LTy::List(elem), "fold") if args.len() == 2 => {
                let elem = (**elem).clone();
                return self.fold(&recv, &elem, args[0], args[1]);
            }
            (LTy::Int(_), "saturating_sub") if args.len() == 1 => {
                let (a, _) = self.expr(args[0])?;
                return Ok((format!("(Rs.saturatingSub {recv} {a})"), rty.clone()));
            }
            (LTy::Int(_), "min") | (LTy::Int(_), "max") if args.len() == 1 => {
                let (a, _) = self.expr(args[0])?;
                return Ok((format!("({name} {recv} {a})"), rty.clone()));
            }
            (LTy::Int(_), "checked_sub") | (LTy::Int(_), "checked_add") if args.len() == 1 => {
                let (a, _) = self.expr(args[0])?;
                let f = if name == "checked_sub" { "sub" } else { "add" };
                return Ok((format!("(Rs.Arith.{f} {recv} {a})"), LTy::Opt(Box::new(rty.clone()))));
            }
            (LTy::Opt(inner), "ok_or_else") if args.len() == 1 => {
                // `opt.ok_or_else(|| err)`: the closure only builds the error value
                let body = match args[0] {
                    Expr::Closure(c) if c.inputs.is_empty() => &*c.body,
                    _ => return Err("ok_or_else argument".into()),
                };
                // `|| { value }`
                let body = match body {
                    Expr::Block(b) if b.block.stmts.len() == 1 => match &b.block.stmts[0] {
                        Stmt::Expr(e, None) => e,
                        _ => return Err("ok_or_else argument".into()),
                    },
                    other => other,
                };
                let (e, _) = self.pure_expr(body)?;
                return Ok((format!("(Rs.L.okOr {recv} {e})"), LTy::Io(inner.clone())));
            }
            _ => {}
        }
        if let LTy::Ext(t) = &rty {
            if let Some((f, kind, ret)) = ext_method(t, &name) {
                if kind == ExtKind::RefBuf {
                    if args.len() != 1 {
                        return Err("vocabulary call arity".into());
                    }
                    let (bv, wb) = self.buf_arg(args[0])?;
                    let nb = self.opt_tmp(&format!("{f} {recv} {bv}"));
                    self.write_back(wb, nb)?;
                    return Ok(("()".into(), LTy::Unit));
                }
                if kind == ExtKind::MutBuf {
                    if args.len() != 1 {
                        return Err("vocabulary call arity".into());
                    }
                    let p = recv_place.ok_or("mutating call on a temporary")?;
                    let (bv, wb) = self.buf_arg(args[0])?;
                    let (nb, ns) = (self.fresh(), self.fresh());
                    self.bind_opt(&format!("({nb}, {ns})"), &format!("{f} {recv} {bv}"));
                    self.store(&p, ns)?;
                    self.write_back(wb, nb)?;
                    return Ok(("()".into(), LTy::Unit));
                }
                let mut call = format!("{f} {recv}");
                for a in &args {
                    call += &format!(" {}", self.expr(a)?.0);
                }
                match kind {
                    ExtKind::Mut => {
                        let p = recv_place.ok_or("mutating call on a temporary")?;
                        self.store(&p, format!("({call})"))?;
                        return Ok(("()".into(), LTy::Unit));
                    }
                    ExtKind::MutRet => {
                        let p = recv_place.ok_or("mutating call on a temporary")?;
                        let (v, ns) = (self.fresh(), self.fresh());
                        self.emit(format!("let ({v}, {ns}) := {call}"));
                        self.store(&p, ns)?;
                        return Ok((v, ret));
                    }
                    _ => return Ok((format!("({call})"), ret)),
                }
            }
        }
        if let LTy::Adt(t, _) = &rty {
            let key = format!("{t}::{name}");
            if self.failed.contains(&key) {
                return Err(format!("call of untranslated {key}"));
            }
            if let Some(s) = self.lreg.fns.get(&key) {
                return self.call_lfn(&format!("Gen.{t}.{name}"), s, Some((recv, recv_place)), &args);
            }
            let mut av = vec![];
            for a in &args {
                av.push(self.expr(a)?.0);
            }
            let argtxt: String = av.iter().map(|a| format!(" {a}")).collect();
            if let Some(mi) = self.reg.methods.get(&key) {
                if mi.fi.mode != Mode::Pure {
                    return Err(format!("call of {key} (not a pure function)"));
                }
                let ret = mi.fi.ret.as_deref().map(lean_to_lty).unwrap_or(LTy::Unknown);
                let call = format!("Gen.{t}.{name} {recv}{argtxt}");
                if mi.mut_self {
                    let p = recv_place.ok_or("mutating call on a temporary")?;
                    if mi.unit_ret {
                        let s = self.opt_tmp(&call);
                        self.store(&p, s)?;
                        return Ok(("()".into(), LTy::Unit));
                    }
                    let (v, s) = (self.fresh(), self.fresh());
                    self.bind_opt(&format!("({v}, {s})"), &call);
                    self.store(&p, s)?;
                    return Ok((v, ret));
                }
                let v = self.opt_tmp(&call);
                return Ok((v, ret));
            }
        }
        Err(format!("method `{name}` on {} at line {}", rty.lean(), m.span().start().line))
    }

    /// call of another layer-mode function
    fn call_lfn(&mut self, lean: &str, s: &LFnSig, recv: Option<(String, Option<Place>)>, args: &[&Expr]) -> R<(String, LTy)> {
        if args.len() != s.params.len() {
            return Err("call arity".into());
        }
        let mut call = lean.to_string();
        if let Some((r, _)) = &recv {
            call += &format!(" {r}");
        }
        // what the callee hands back besides the outcome
        let mut backs: Vec<WriteBack> = vec![];
        if s.self_kind == SelfKind::RefMut {
            let p = recv.as_ref().and_then(|x| x.1.clone()).ok_or("mutating call on a temporary")?;
            backs.push(WriteBack::Whole(p));
        }
        for (a, (_, _, st)) in args.iter().zip(s.params.iter()) {
            if *st {
                // a `&mut [u8]` argument: its value, and where the callee's version goes
                let (v, wb) = self.buf_arg(a)?;
                call += &format!(" {v}");
                backs.push(wb);
            } else {
                call += &format!(" {}", self.expr(a)?.0);
            }
        }
        let res = self.fresh();
        if backs.is_empty() {
            self.emit(format!("let {res} := {call}"));
        } else {
            let names: Vec<String> = backs.iter().map(|_| self.fresh()).collect();
            self.emit(format!("let ({res}, {}) := {call}", names.join(", ")));
            for (wb, n) in backs.into_iter().zip(names) {
                self.write_back(wb, n)?;
            }
        }
        match &s.ret {
            LTy::Io(_) => Ok((res, s.ret.clone())),
            t => {
                let v = self.fresh();
                self.bind_opt(&v, &res);
                Ok((v, t.clone()))
            }
        }
    }

    fn call(&mut self, c: &ExprCall) -> R<(String, LTy)> {
        let segs = match &*c.func {
            Expr::Path(p) => path_segs(&p.path),
            _ => return Err("call of a non-path".into()),
        };
        let args: Vec<&Expr> = c.args.iter().collect();
        if let Some(r) = self.kind_calls(c, &segs, &args)? {
            return Ok(r);
        }
        let last = segs.last().cloned().unwrap_or_default();
        if segs.len() == 1 {
            if let Some((lean, ret, partial)) = ext_free(&last) {
                let mut call = lean.to_string();
                for a in &args {
                    call += &format!(" {}", self.expr(a)?.0);
                }
                if partial {
                    let v = self.opt_tmp(&call);
                    return Ok((v, ret));
                }
                return Ok((format!("({call})"), ret));
            }
        }
        // the generic arguments of the last path segment, as text
        let turbofish = match &*c.func {
            Expr::Path(p) => match &p.path.segments.last().unwrap().arguments {
                PathArguments::AngleBracketed(a) => { let ts = &a.args; quote::quote!(#ts).to_string() }
                _ => String::new(),
            },
            _ => String::new(),
        };
        if let Some(lean) = ext_fill(&segs, &turbofish) {
            let (out, rest) = args.split_last().ok_or("vocabulary call arity")?;
            let mut call = lean.to_string();
            for a in rest {
                call += &format!(" {}", self.expr(a)?.0);
            }
            if !matches!(out, Expr::Reference(r) if r.mutability.is_some()) {
                return Err("output buffer of a vocabulary call".into());
            }
            let (bv, wb) = self.buf_arg(out)?;
            let nb = self.fresh();
            self.emit(format!("let {nb} := {call} {bv}"));
            self.write_back(wb, nb)?;
            return Ok(("()".into(), LTy::Unit));
        }
        if segs.len() == 1 && !self.failed.contains(&last) {
            // a translated free function
            if let Some(s) = self.lreg.fns.get(&last) {
                return self.call_lfn(&format!("Gen.{last}"), s, None, &args);
            }
        }
        if segs.len() >= 2 && segs[segs.len() - 2] == "Path" && last == "new" && args.len() == 1 {
            // `Path::new(s)`: the same bytes
            let (v, t) = self.expr(args[0])?;
            if t != LTy::Str && t != LTy::Path {
                return Err("Path::new of a non-string".into());
            }
            return Ok((v, LTy::Path));
        }
        if segs.len() >= 2 && segs[segs.len() - 2] == "PathBuf" && last == "new" && args.is_empty() {
            // `PathBuf::new()`: the empty path
            return Ok(("([] : Bytes)".into(), LTy::Path));
        }
        if segs.len() == 1 && last == "Some" && args.len() == 1 {
            let (v, t) = self.expr(args[0])?;
            return Ok((format!("(some {v})"), LTy::Opt(Box::new(t))));
        }
        // `io::Error::new(io::ErrorKind::K, "message")`
        if segs.len() >= 2 && segs[segs.len() - 2] == "Error" && last == "new" && args.len() == 2 {
            if let Expr::Path(k) = args[0] {
                let ks = path_segs(&k.path);
                if ks.len() >= 2 && ks[ks.len() - 2] == "ErrorKind" {
                    let kind = ks.last().unwrap();
                    if !["Other", "InvalidData", "InvalidInput", "UnexpectedEof", "WriteZero"].contains(&kind.as_str()) {
                        return Err(format!("ErrorKind::{kind}"));
                    }
                    return Ok((format!("(Rs.ioKind Rs.IoKind.{kind})"), LTy::Ext("ZipVerif.IoKind".into())));
                }
            }
            return Err("io::Error::new form".into());
        }
        if segs.len() == 2 {
            let (ty, f) = (&segs[0], &segs[1]);
            if let Some((lean, ret)) = ext_static(ty, f) {
                let mut call = lean.to_string();
                for a in &args {
                    call += &format!(" {}", self.expr(a)?.0);
                }
                return Ok((if args.is_empty() { call } else { format!("({call})") }, ret));
            }
            // enum constructor with payload
            if let Some(vs) = self.lreg.enums.get(ty) {
                if vs.iter().any(|(v, _)| v == f) {
                    let mut call = format!("Gen.{ty}.{f}");
                    for a in &args {
                        call += &format!(" {}", self.expr(a)?.0);
                    }
                    return Ok((format!("({call})"), LTy::Adt(ty.clone(), vec![])));
                }
            }
            let key = format!("{ty}::{f}");
            if self.failed.contains(&key) {
                return Err(format!("call of untranslated {key}"));
            }
            if let Some(s) = self.lreg.fns.get(&key) {
                return self.call_lfn(&format!("Gen.{ty}.{f}"), s, None, &args);
            }
            let mut av = vec![];
            for a in &args {
                av.push(self.expr(a)?.0);
            }
            let argtxt: String = av.iter().map(|a| format!(" {a}")).collect();
            if let Some(mi) = self.reg.methods.get(&key) {
                if mi.fi.mode == Mode::Pure && !mi.mut_self {
                    let ret = mi.fi.ret.as_deref().map(lean_to_lty).unwrap_or(LTy::Unknown);
                    let v = self.opt_tmp(&format!("Gen.{ty}.{f}{argtxt}"));
                    return Ok((v, ret));
                }
            }
        }
        Err(format!("call of {} at line {}", segs.join("::"), c.span().start().line))
    }

    /// the function's outcome for `return e` / a tail expression
    fn result_value(&mut self, e: &Expr) -> R<String> {
        let v = self.ret_value(e)?;
        Ok(if self.is_io() { v } else { format!("some {v}") })
    }

    /// the value the function returns (an `IoRes` for a function returning `io::Result`)
    fn ret_value(&mut self, e: &Expr) -> R<String> {
        if let Expr::Call(c) = e {
            if let Expr::Path(p) = &*c.func {
                let segs = path_segs(&p.path);
                if segs.len() == 1 && c.args.len() == 1 && self.is_io() {
                    if segs[0] == "Ok" {
                        let (v, _) = self.expr(&c.args[0])?;
                        return Ok(format!("Rs.IoRes.ok {v}"));
                    }
                    if segs[0] == "Err" {
                        let (v, _) = self.expr(&c.args[0])?;
                        return Ok(format!("Rs.IoRes.err {v}"));
                    }
                }
                if segs.len() == 1 && c.args.len() == 1 && self.is_res() {
                    if segs[0] == "Ok" {
                        let (v, _) = self.expr(&c.args[0])?;
                        return Ok(format!("(Except.ok {v})"));
                    }
                    if segs[0] == "Err" {
                        let (v, _) = self.expr(&c.args[0])?;
                        return Ok(format!("(Except.error {v})"));
                    }
                }
            }
        }
        self.hint = if self.is_io() { None } else { Some(self.sig.ret.clone()) };
        let r = self.expr(e);
        self.hint = None;
        let (v, t) = r?;
        if self.is_io() {
            match t {
                LTy::Io(_) => Ok(v),
                _ => Err("returned value is not an io::Result".into()),
            }
        } else {
            Ok(v)
        }
    }
}

include!("t6l_ma.rs");
