// Part of t6l.rs (included): `match` and `for … in ….iter_mut()`.

/// one arm below a fixed outer constructor: inner pattern, guard, body
struct SubArm<'x> {
    pat: Option<&'x Pat>,
    guard: Option<&'x Expr>,
    body: &'x Expr,
}

impl<'a> LTr<'a> {
    /// body of a match arm as the lines of a do-sequence (one level deeper than the current one)
    fn arm_body(&mut self, body: &Expr, value: bool) -> R<()> {
        self.ind += 1;
        let saved = self.vars.clone();
        let before = self.lines.len();
        match body {
            Expr::Block(b) => {
                let v = self.block(&b.block, false)?;
                match (v, value) {
                    (Some(v), true) => self.emit(format!("pure {v}")),
                    (Some(_), false) => return Err("arm value dropped".into()),
                    (None, _) => {
                        if self.lines.len() == before {
                            if value {
                                return Err("arm without a value".into());
                            }
                            self.emit("pure ()".into());
                        }
                    }
                }
            }
            e if self.is_stmt_like(e) => self.stmt_expr(e)?,
            e => {
                let (v, _) = self.expr(e)?;
                if value {
                    self.emit(format!("pure {v}"));
                } else if self.lines.len() == before {
                    self.emit("pure ()".into());
                }
            }
        }
        self.vars = saved;
        self.ind -= 1;
        Ok(())
    }

    /// arms that share the outer constructor, tried in order: literal patterns and guards become an
    /// if-chain over the payload `v`
    fn arm_chain(&mut self, arms: &[SubArm], v: &str, vty: &LTy, value: bool) -> R<()> {
        let (first, rest) = arms.split_first().ok_or("non-exhaustive match (after guards)")?;
        let mut conds = vec![];
        let mut binding: Option<String> = None;
        match first.pat {
            None => {}
            Some(Pat::Wild(_)) => {}
            Some(Pat::Ident(id)) if id.subpat.is_none() => binding = Some(id.ident.to_string()),
            Some(Pat::Lit(l)) => {
                let (lv, _) = self.pure_expr(&Expr::Lit(ExprLit { attrs: vec![], lit: l.lit.clone() }))?;
                conds.push(format!("({v} == {lv})"));
            }
            Some(_) => return Err("nested pattern".into()),
        }
        let saved = self.vars.clone();
        if let Some(b) = &binding {
            // the binding is visible in the guard and in the body
            self.ind += 1;
            self.emit(format!("let {b} := {v}"));
            self.ind -= 1;
            self.vars.insert(b.clone(), vty.clone());
        }
        if let Some(g) = first.guard {
            let (gv, _) = self.pure_expr(g)?;
            conds.push(gv);
        }
        if conds.is_empty() {
            self.arm_body(first.body, value)?;
            self.vars = saved;
            return Ok(());
        }
        self.ind += 1;
        self.emit(format!("if {} then", conds.join(" && ")));
        self.arm_body(first.body, value)?;
        self.emit("else".into());
        self.vars = saved;
        self.arm_chain(rest, v, vty, value)?;
        self.ind -= 1;
        Ok(())
    }

    /// `match scrutinee { arms }`; `lhs`: `Some("let x")` when the value is bound
    fn match_arms(&mut self, m: &ExprMatch, lhs: Option<&str>) -> R<LTy> {
        let value = lhs.is_some();
        let (scrut, sty) = self.expr(&m.expr)?;
        let head = match lhs {
            Some(l) => format!("{l} ← match {scrut} with"),
            None => format!("match {scrut} with"),
        };
        match &sty {
            LTy::Io(inner) => {
                if self.closure {
                    return Err("match on an io::Result inside a loop body".into());
                }
                let mut oks = vec![];
                let mut errs = vec![];
                for a in &m.arms {
                    let guard = a.guard.as_ref().map(|g| &*g.1);
                    match &a.pat {
                        Pat::TupleStruct(ts) if ts.elems.len() == 1 => {
                            let c = path_last(&ts.path);
                            let sub = SubArm { pat: Some(&ts.elems[0]), guard, body: &a.body };
                            match c.as_str() {
                                "Ok" => oks.push(sub),
                                "Err" => errs.push(sub),
                                _ => return Err(format!("pattern {c}(..) on an io::Result")),
                            }
                        }
                        _ => return Err("pattern on an io::Result".into()),
                    }
                }
                self.emit(head);
                let v = self.fresh();
                self.emit(format!("| .ok {v} =>"));
                self.arm_chain(&oks, &v, inner, value)?;
                let v = self.fresh();
                self.emit(format!("| .err {v} =>"));
                self.arm_chain(&errs, &v, &LTy::Ext("ZipVerif.IoKind".into()), value)?;
                let ex = self.exit(&self.panic_res());
                self.emit(format!("| .panic => {ex}"));
                Ok((**inner).clone())
            }
            LTy::Opt(inner) => self.match_opt(m, &scrut, inner, lhs),
            LTy::Adt(en, _) if !self.lreg.enums.contains_key(en) && self.reg.enums.get(en).map_or(false, |vs| vs.iter().all(|(_, payload)| !payload)) => self.match_unit_enum(m, &scrut, en, lhs),
            LTy::Int(_) => self.match_lit(m, &scrut, lhs),
            LTy::Ext(en) if ext_enum(en).is_some() => {
                let variants = ext_enum(en).unwrap();
                self.emit(head);
                for a in &m.arms {
                    if a.guard.is_some() {
                        return Err("guard on an enum arm".into());
                    }
                    // alternatives without bindings, or a wildcard
                    let alts: Vec<&Pat> = match &a.pat {
                        Pat::Or(o) => o.cases.iter().collect(),
                        p => vec![p],
                    };
                    let mut texts = vec![];
                    let mut binds_all: Vec<(String, LTy)> = vec![];
                    for p in &alts {
                        match p {
                            Pat::Wild(_) => texts.push("_".to_string()),
                            Pat::Path(pp) => {
                                let v = path_last(&pp.path);
                                let (_, tys) = variants.iter().find(|(n, _)| *n == v).ok_or(format!("unknown variant {v}"))?;
                                if !tys.is_empty() {
                                    return Err("variant arity".into());
                                }
                                texts.push(format!(".{v}"));
                            }
                            Pat::TupleStruct(ts) => {
                                let v = path_last(&ts.path);
                                let (_, tys) = variants.iter().find(|(n, _)| *n == v).ok_or(format!("unknown variant {v}"))?;
                                let wild_rest = ts.elems.len() == 1 && matches!(&ts.elems[0], Pat::Rest(_));
                                if !wild_rest && tys.len() != ts.elems.len() {
                                    return Err("variant arity".into());
                                }
                                let mut t = format!(".{v}");
                                for (i, ty) in tys.iter().enumerate() {
                                    match if wild_rest { None } else { Some(&ts.elems[i]) } {
                                        None | Some(Pat::Wild(_)) => t += " _",
                                        Some(Pat::Ident(id)) if id.subpat.is_none() && alts.len() == 1 => {
                                            t += &format!(" {}", id.ident);
                                            binds_all.push((id.ident.to_string(), ty.clone()));
                                        }
                                        _ => return Err("nested pattern".into()),
                                    }
                                }
                                texts.push(t);
                            }
                            _ => return Err("enum pattern".into()),
                        }
                    }
                    let saved = self.vars.clone();
                    for (b, t) in binds_all {
                        self.vars.insert(b, t);
                    }
                    self.emit(format!("| {} =>", texts.join(" | ")));
                    self.arm_body(&a.body, value)?;
                    self.vars = saved;
                }
                Ok(LTy::Unknown)
            }
            LTy::Adt(en, _) if self.lreg.enums.contains_key(en) => {
                let variants = self.lreg.enums[en].clone();
                self.emit(head);
                for a in &m.arms {
                    if a.guard.is_some() {
                        return Err("guard on an enum arm".into());
                    }
                    let (vname, binds): (String, Vec<String>) = match &a.pat {
                        Pat::TupleStruct(ts) => {
                            let mut bs = vec![];
                            for e in &ts.elems {
                                match e {
                                    Pat::Ident(id) if id.subpat.is_none() => bs.push(id.ident.to_string()),
                                    Pat::Wild(_) => bs.push("_".into()),
                                    _ => return Err("nested pattern".into()),
                                }
                            }
                            (path_last(&ts.path), bs)
                        }
                        Pat::Path(p) => (path_last(&p.path), vec![]),
                        _ => return Err("enum pattern".into()),
                    };
                    let (_, tys) = variants.iter().find(|(v, _)| *v == vname).ok_or(format!("unknown variant {vname}"))?;
                    if tys.len() != binds.len() {
                        return Err("variant arity".into());
                    }
                    let saved = self.vars.clone();
                    for (b, t) in binds.iter().zip(tys.iter()) {
                        self.vars.insert(b.clone(), t.clone());
                    }
                    let bt: String = binds.iter().map(|b| format!(" {b}")).collect();
                    self.emit(format!("| .{vname}{bt} =>"));
                    self.arm_body(&a.body, value)?;
                    self.vars = saved;
                }
                Ok(LTy::Unknown)
            }
            _ => Err(format!("match on a value of type {}", sty.lean())),
        }
    }

    fn match_value(&mut self, m: &ExprMatch, lhs: &str) -> R<LTy> {
        self.match_arms(m, Some(lhs))
    }

    fn match_stmt(&mut self, m: &ExprMatch) -> R<()> {
        self.match_arms(m, None).map(|_| ())
    }

    /// `for x in place[.. range].iter_mut() { body }`
    fn for_loop(&mut self, f: &ExprForLoop) -> R<()> {
        if matches!(&*f.pat, Pat::Tuple(_)) {
            return self.for_zip(f);
        }
        let var = match &*f.pat {
            Pat::Ident(id) => id.ident.to_string(),
            _ => return Err("for pattern".into()),
        };
        let it = match &*f.expr {
            Expr::MethodCall(m) if m.method == "iter_mut" && m.args.is_empty() => &*m.receiver,
            _ => return self.for_list(f, &var),
        };
        if self.closure {
            return Err("nested loop".into());
        }
        let (src, wb) = self.buf_arg(it)?;
        // loop-carried variables
        let mut mv = Mutated { out: vec![] };
        syn::visit::visit_block(&mut mv, &f.body);
        let mut carried: Vec<String> = vec![];
        for r in mv.out {
            if r != var && self.vars.contains_key(&r) && !carried.contains(&r) {
                carried.push(r);
            }
        }
        let pat = match carried.len() {
            0 => "()".to_string(),
            1 => carried[0].clone(),
            _ => format!("({})", carried.join(", ")),
        };
        let (nb, ns) = (self.fresh(), self.fresh());
        let ex = self.exit(&self.panic_res());
        self.emit(format!("let some ({nb}, {ns}) := Rs.L.iterMut {src} {pat} (fun {pat} {var} => do"));
        self.ind += 2;
        for c in &carried {
            self.emit(format!("let mut {c} := {c}"));
        }
        self.emit(format!("let mut {var} := {var}"));
        let saved_vars = self.vars.clone();
        self.vars.insert(var.clone(), LTy::Int("UInt8".into()));
        self.closure = true;
        self.deref_var = Some(var.clone());
        let r = self.block(&f.body, false);
        self.closure = false;
        self.deref_var = None;
        self.vars = saved_vars;
        if r?.is_some() {
            return Err("loop body with a value".into());
        }
        self.emit(format!("pure ({var}, {pat}))"));
        self.ind -= 1;
        self.emit(format!("| {ex}"));
        self.ind -= 1;
        match carried.len() {
            0 => {}
            1 => self.emit(format!("{} := {ns}", carried[0])),
            _ => self.emit(format!("({}) := {ns}", carried.join(", "))),
        }
        self.write_back(wb, nb)
    }
}

include!("t6l2.rs");
