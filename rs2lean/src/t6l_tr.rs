// Part of t6l.rs (included): the statement / expression translator of the layer mode.

/// A place expression: a variable, a path of fields below it, optionally one index or range.
#[derive(Clone, Debug)]
struct Place {
    root: String,
    fields: Vec<String>,
    ty: LTy,
}

impl Place {
    fn term(&self) -> String {
        let mut s = self.root.clone();
        for f in &self.fields {
            s.push('.');
            s += f;
        }
        s
    }
}

struct LTr<'a> {
    reg: &'a Registry,
    lreg: &'a LReg,
    failed: &'a HashSet<String>,
    sig: &'a LFnSig,
    self_ty: LTy,
    tmp: usize,
    lines: Vec<String>,
    ind: usize,
    vars: HashMap<String, LTy>,
    /// the variables whose final values are part of the result, in order
    state: Vec<String>,
    /// inside the body of an `iter_mut` loop: the Option monad, no exits
    closure: bool,
    /// name of the `*byte` loop variable
    deref_var: Option<String>,
    /// read-only reference variables of a loop (`*rhs`)
    deref_ro: Vec<String>,
    /// `mut x: &mut [u8]` parameters: a view into the caller's buffer that the body may re-slice
    /// (`x = &mut x[n..]`); `x` holds the view, `x'` the part of the caller's buffer left behind
    views: Vec<String>,
    /// inside the body of a list loop: `return` and `?` leave the loop with `Rs.Step.ret`
    loop_ret: bool,
    /// type expected of the expression being translated (tail of the function body)
    hint: Option<LTy>,
    /// closure parameters that are references to a value (`|x| … *x …`, `|.., ref x|`): `*x` is the value
    ref_vars: Vec<String>,
}

impl<'a> LTr<'a> {
    fn translate(reg: &'a Registry, lreg: &'a LReg, failed: &'a HashSet<String>, lean_name: &str, self_ty: LTy, fsig: &Signature, fblock: &Block, sig: &'a LFnSig) -> R<String> {
        let mut tr = LTr { reg, lreg, failed, sig, self_ty: self_ty.clone(), tmp: 0, lines: vec![], ind: 1, vars: HashMap::new(), state: vec![], closure: false, deref_var: None, deref_ro: vec![], views: vec![], loop_ret: false, hint: None, ref_vars: vec![] };
        let mut binders = String::new();
        for (p, bounds) in &sig.tparams {
            write!(binders, " {{{p} : Type}}").unwrap();
            for b in bounds {
                match b.as_str() {
                    "Read" => write!(binders, " [Rs.Read {p}]").unwrap(),
                    "Write" => write!(binders, " [Rs.Write {p}]").unwrap(),
                    "AesKind" => {}
                    "Cipher:KeyInit" => write!(binders, " [Rs.AesKind {p}]").unwrap(),
                    other => return Err(format!("trait bound {other}")),
                }
            }
        }
        let mut muts = vec![];
        if sig.self_kind != SelfKind::None {
            write!(binders, " (self : {})", self_ty.lean()).unwrap();
            tr.vars.insert("self".into(), self_ty.clone());
            if sig.self_kind == SelfKind::RefMut {
                tr.state.push("self".into());
            }
            if sig.self_kind != SelfKind::Ref {
                muts.push("self".to_string());
            }
        }
        for (a, (n, t, st)) in fsig.inputs.iter().filter(|a| matches!(a, FnArg::Typed(_))).zip(sig.params.iter()) {
            write!(binders, " ({n} : {})", t.lean()).unwrap();
            tr.vars.insert(n.clone(), t.clone());
            let by_mut = matches!(a, FnArg::Typed(pt) if matches!(&*pt.pat, Pat::Ident(id) if id.mutability.is_some()));
            if *st {
                tr.state.push(n.clone());
                if by_mut {
                    tr.views.push(n.clone());
                }
            }
            if *st || by_mut {
                muts.push(n.clone());
            }
        }
        let mut rty = match &sig.ret {
            LTy::Io(t) => format!("Rs.IoRes {}", t.lean()),
            t => format!("Option {}", t.lean()),
        };
        for s in &tr.state {
            rty = format!("{rty} × {}", tr.vars[s].lean());
        }
        for mv in &muts {
            tr.emit(format!("let mut {mv} := {mv}"));
        }
        for v in tr.views.clone() {
            tr.emit(format!("let mut {v}' : Bytes := []"));
        }
        let v = tr.block(fblock, true)?;
        if let Some(v) = v {
            let e = tr.exit(&v);
            tr.emit(e);
        } else if sig.ret == LTy::Unit {
            let e = tr.exit("some ()");
            tr.emit(e);
        }
        let mut s = String::new();
        writeln!(s, "def {lean_name}{binders} : {rty} := Id.run do").unwrap();
        for l in &tr.lines {
            writeln!(s, "{l}").unwrap();
        }
        Ok(s)
    }

    fn emit(&mut self, s: String) {
        self.lines.push(format!("{}{}", "  ".repeat(self.ind), s));
    }
    fn fresh(&mut self) -> String {
        self.tmp += 1;
        format!("t{}", self.tmp)
    }
    fn is_io(&self) -> bool {
        matches!(self.sig.ret, LTy::Io(_))
    }
    /// the function returns a `Result` with an error type of the vocabulary (`Except`, inside the panic monad)
    fn is_res(&self) -> bool {
        matches!(self.sig.ret, LTy::Res(..))
    }
    #[allow(dead_code)]
    fn ok_res(&self, v: &str) -> String {
        if self.is_io() { format!("Rs.IoRes.ok {v}") } else { format!("some {v}") }
    }
    fn panic_res(&self) -> String {
        if self.is_io() { "Rs.IoRes.panic".into() } else { "none".into() }
    }
    /// `return` of an outcome with the current values of the state variables
    fn exit(&self, res: &str) -> String {
        if self.state.is_empty() {
            format!("return ({res})")
        } else {
            // a re-sliceable view: what was left behind, then the view
            let vals: Vec<String> = self.state.iter().map(|s| if self.views.contains(s) { format!("{s}' ++ {s}") } else { s.clone() }).collect();
            format!("return ({res}, {})", vals.join(", "))
        }
    }
    /// bind the value of a panic-monad term (`Option`): `none` is a panic exit
    fn bind_opt(&mut self, pat: &str, rhs: &str) {
        if self.closure {
            self.emit(format!("let {pat} ← {rhs}"));
        } else {
            let e = self.exit(&self.panic_res());
            self.emit(format!("let some {pat} := {rhs} | {e}"));
        }
    }
    fn opt_tmp(&mut self, rhs: &str) -> String {
        let t = self.fresh();
        self.bind_opt(&t, rhs);
        t
    }
    /// `r?` for an `IoRes` value held in the variable `res`
    fn bind_try(&mut self, pat: &str, res: &str) -> R<()> {
        if self.closure && self.loop_ret && self.is_io() {
            self.emit(format!("let .ok {pat} := {res} | return (Rs.Step.ret (Rs.IoRes.fail {res}))"));
            return Ok(());
        }
        if self.closure {
            return Err("`?` inside a loop body".into());
        }
        if !self.is_io() {
            return Err("`?` in a function that does not return io::Result".into());
        }
        let e = self.exit(&format!("Rs.IoRes.fail {res}"));
        self.emit(format!("let .ok {pat} := {res} | {e}"));
        Ok(())
    }

    /// Statements of a block; the value of its tail expression, if any.
    fn block(&mut self, b: &Block, fn_body: bool) -> R<Option<String>> {
        let n = b.stmts.len();
        let mut val = None;
        for (i, s) in b.stmts.iter().enumerate() {
            match s {
                Stmt::Expr(e, None) if i + 1 == n => {
                    // tail expression
                    if let (true, Expr::If(ie)) = (fn_body && self.sig.ret != LTy::Unit && !self.closure, e) {
                        if value_if(ie) {
                            // `if c { value } else { value }` as the function's result
                            self.if_tail(ie)?;
                            continue;
                        }
                    }
                    if self.is_stmt_like(e) {
                        self.stmt_expr(e)?;
                    } else if fn_body {
                        val = Some(self.result_value(e)?);
                    } else {
                        val = Some(self.expr(e)?.0);
                    }
                }
                _ => self.stmt(s)?,
            }
        }
        Ok(val)
    }

    fn is_stmt_like(&self, e: &Expr) -> bool {
        matches!(e, Expr::Return(_) | Expr::If(_) | Expr::ForLoop(_) | Expr::While(_) | Expr::Assign(_)) || matches!(e, Expr::Binary(b) if is_assign_op(&b.op)) || matches!(e, Expr::Match(m) if m.arms.iter().all(|a| matches!(&*a.body, Expr::Block(_) | Expr::Assign(_)) || matches!(&*a.body, Expr::Binary(b) if is_assign_op(&b.op)) || matches!(&*a.body, Expr::Tuple(t) if t.elems.is_empty()) || diverges(&a.body)))
    }

    fn stmt(&mut self, s: &Stmt) -> R<()> {
        match s {
            Stmt::Local(l) => self.local(l),
            Stmt::Expr(e, _) => self.stmt_expr(e),
            Stmt::Macro(m) => self.stmt_macro(&m.mac),
            Stmt::Item(Item::Use(_)) => Ok(()),
            Stmt::Item(_) => Err("nested item".into()),
        }
    }

    fn stmt_macro(&mut self, m: &Macro) -> R<()> {
        let name = path_last(&m.path);
        if name == "assert" {
            let args: Vec<Expr> = m.parse_body_with(punctuated::Punctuated::<Expr, Token![,]>::parse_terminated).map_err(|e| e.to_string())?.into_iter().collect();
            if args.is_empty() {
                return Err("assert! without a condition".into());
            }
            let (c, _) = self.expr(&args[0])?;
            self.bind_opt("_", &format!("Rs.L.assert {c}"));
            return Ok(());
        }
        if name == "assert_eq" {
            let args: Vec<Expr> = m.parse_body_with(punctuated::Punctuated::<Expr, Token![,]>::parse_terminated).map_err(|e| e.to_string())?.into_iter().collect();
            if args.len() < 2 {
                return Err("assert_eq! without two operands".into());
            }
            let (a, at) = self.expr(&args[0])?;
            let (b, bt) = self.expr(&args[1])?;
            let eq = if at == LTy::Bytes || bt == LTy::Bytes { format!("(Rs.L.bytesEq {a} {b})") } else { format!("({a} == {b})") };
            self.bind_opt("_", &format!("Rs.L.assert {eq}"));
            return Ok(());
        }
        Err(format!("macro {name}!"))
    }

    fn local(&mut self, l: &Local) -> R<()> {
        let (name, mutable, ann) = match &l.pat {
            Pat::Ident(id) => (id.ident.to_string(), id.mutability.is_some(), None),
            Pat::Type(pt) => match &*pt.pat {
                Pat::Ident(id) => (id.ident.to_string(), id.mutability.is_some(), Some(&*pt.ty)),
                _ => return Err("let pattern".into()),
            },
            _ => return Err("let pattern".into()),
        };
        let init = l.init.as_ref().ok_or("let without initialiser")?;
        if init.diverge.is_some() {
            return Err("let-else".into());
        }
        let kw = if mutable { "let mut" } else { "let" };
        let tps: Vec<String> = self.sig.tparams.iter().map(|x| x.0.clone()).collect();
        let ann_ty = ann.map(|t| lty(t, &tps, Some(&self.self_ty), self.reg, self.lreg));
        if matches!(&*init.expr, Expr::Reference(r) if r.mutability.is_some()) {
            // the translation of a reference is the VALUE behind it: a mutable borrow cannot be a local
            return Err("let of a mutable borrow".into());
        }
        if let Expr::Match(m) = &*init.expr {
            let t = self.match_value(m, &format!("{kw} {name}"))?;
            self.vars.insert(name, ann_ty.unwrap_or(t));
            return Ok(());
        }
        let (v, t) = self.expr(&init.expr)?;
        let t = match ann_ty {
            Some(a) if a != LTy::Unknown => a,
            _ => t,
        };
        match &t {
            LTy::Unknown => self.emit(format!("{kw} {name} := {v}")),
            t => self.emit(format!("{kw} {name} : {} := {v}", t.lean())),
        }
        self.vars.insert(name, t);
        Ok(())
    }

    fn stmt_expr(&mut self, e: &Expr) -> R<()> {
        if !expr_attrs(e).is_empty() && !cfg_on(expr_attrs(e)) {
            return Ok(());
        }
        match e {
            Expr::Return(r) if self.closure && self.loop_ret => {
                let v = r.expr.as_ref().ok_or("return without a value")?;
                let res = self.ret_value(v)?;
                self.emit(format!("return (Rs.Step.ret ({res}))"));
                Ok(())
            }
            Expr::Return(r) => {
                if self.closure {
                    return Err("`return` inside a loop body".into());
                }
                let v = r.expr.as_ref().ok_or("return without a value")?;
                let res = self.result_value(v)?;
                let ex = self.exit(&res);
                self.emit(ex);
                Ok(())
            }
            Expr::If(i) => self.if_stmt(i),
            Expr::Match(m) => self.match_stmt(m),
            Expr::Assign(a) if path_ident(&a.left).map_or(false, |n| self.views.contains(&n)) => self.reslice(a),
            Expr::Assign(a) => {
                let (v, _) = self.expr(&a.right)?;
                self.assign(&a.left, v)
            }
            Expr::While(w) => self.while_loop(w),
            Expr::Binary(b) if is_assign_op(&b.op) => {
                let (l, lt) = self.expr(&b.left)?;
                let (r, _) = self.expr(&b.right)?;
                let v = match b.op {
                    BinOp::AddAssign(_) => self.opt_tmp(&format!("Rs.Arith.add {l} {r}")),
                    BinOp::SubAssign(_) => self.opt_tmp(&format!("Rs.Arith.sub {l} {r}")),
                    BinOp::MulAssign(_) => self.opt_tmp(&format!("Rs.Arith.mul {l} {r}")),
                    BinOp::BitXorAssign(_) => format!("({l} ^^^ {r})"),
                    BinOp::BitAndAssign(_) => format!("({l} &&& {r})"),
                    BinOp::BitOrAssign(_) => format!("({l} ||| {r})"),
                    _ => return Err("compound assignment operator".into()),
                };
                let _ = lt;
                self.assign(&b.left, v)
            }
            Expr::ForLoop(f) => self.for_loop(f),
            Expr::Block(b) => {
                let v = self.block(&b.block, false)?;
                if v.is_some() {
                    return Err("block value dropped".into());
                }
                Ok(())
            }
            Expr::Macro(m) => self.stmt_macro(&m.mac),
            Expr::Try(_) | Expr::MethodCall(_) | Expr::Call(_) => {
                let (_v, _t) = self.expr(e)?;
                Ok(())
            }
            _ => Err(format!("statement at line {}", e.span().start().line)),
        }
    }

    /// a nested block of statements as the lines of a do-sequence
    fn nested(&mut self, b: &Block) -> R<()> {
        self.ind += 1;
        let before = self.lines.len();
        let saved = self.vars.clone();
        let v = self.block(b, false)?;
        if v.is_some() {
            return Err("block value dropped".into());
        }
        if self.lines.len() == before {
            self.emit("pure ()".into());
        }
        self.vars = saved;
        self.ind -= 1;
        Ok(())
    }

    fn if_stmt(&mut self, i: &ExprIf) -> R<()> {
        if matches!(&*i.cond, Expr::Let(_)) {
            return Err("if let".into());
        }
        let (c, _) = self.expr(&i.cond)?;
        self.emit(format!("if {c} then"));
        self.nested(&i.then_branch)?;
        if let Some((_, els)) = &i.else_branch {
            self.emit("else".into());
            match &**els {
                Expr::Block(b) => self.nested(&b.block)?,
                Expr::If(j) => {
                    self.ind += 1;
                    self.if_stmt(j)?;
                    self.ind -= 1;
                }
                _ => return Err("else branch".into()),
            }
        }
        Ok(())
    }

    fn assign(&mut self, lhs: &Expr, v: String) -> R<()> {
        match lhs {
            Expr::Unary(u) if matches!(u.op, UnOp::Deref(_)) => {
                let n = path_ident(&u.expr).ok_or("deref assignment")?;
                if self.deref_var.as_deref() != Some(&n) {
                    return Err("assignment through a reference".into());
                }
                self.emit(format!("{n} := {v}"));
                Ok(())
            }
            Expr::Index(ix) => {
                let p = self.place(&ix.expr)?;
                if p.ty != LTy::Bytes {
                    return Err("index assignment on a non-byte container".into());
                }
                let (i, _) = self.expr(&ix.index)?;
                let t = self.opt_tmp(&format!("Rs.L.setIdx {} {i} {v}", p.term()));
                self.store(&p, t)
            }
            _ => {
                let p = self.place(lhs)?;
                self.store(&p, v)
            }
        }
    }

    /// `place := v`
    fn store(&mut self, p: &Place, v: String) -> R<()> {
        if p.root.starts_with('(') {
            return Err("assignment through a Cow".into());
        }
        if p.fields.is_empty() {
            self.emit(format!("{} := {v}", p.root));
        } else {
            self.emit(format!("{} := {{ {} with {} := {v} }}", p.root, p.root, p.fields.join(".")));
        }
        Ok(())
    }

    fn field_ty(&self, base: &LTy, f: &str) -> LTy {
        if let LTy::Adt(n, args) = base {
            if let Some(st) = self.lreg.structs.get(n) {
                if let Some((_, t)) = st.fields.iter().find(|(k, _)| k == f) {
                    // substitute the structure's type parameters
                    return subst(t, &st.params, args);
                }
            }
            if let Some(m) = self.reg.struct_fields.get(n) {
                if let Some(t) = m.get(f) {
                    if self.reg.str_fields.contains(&(n.clone(), f.to_string())) {
                        return LTy::Str;
                    }
                    return lean_to_lty(t);
                }
            }
        }
        LTy::Unknown
    }

    /// a variable or a path of fields below it
    fn place(&mut self, e: &Expr) -> R<Place> {
        match e {
            Expr::Path(p) if p.path.segments.len() == 1 => {
                let n = path_last(&p.path);
                let ty = self.vars.get(&n).cloned().ok_or(format!("unknown variable {n}"))?;
                Ok(Place { root: n, fields: vec![], ty })
            }
            Expr::Field(f) => {
                let mut p = self.place(&f.base)?;
                let name = match &f.member {
                    Member::Named(i) => i.to_string(),
                    // a field of a tuple structure (`lstruct`)
                    Member::Unnamed(i) if matches!(&p.ty, LTy::Adt(n, _) if self.lreg.structs.contains_key(n)) => format!("_{}", i.index),
                    _ => return Err("tuple field".into()),
                };
                if let LTy::Cow(inner) = &p.ty {
                    // a field behind a `Cow`: auto-deref (`&*cow`), read-only
                    p = Place { root: format!("(Rs.Cow.get {})", p.term()), fields: vec![], ty: (**inner).clone() };
                }
                p.ty = self.field_ty(&p.ty, &name);
                p.fields.push(name);
                Ok(p)
            }
            Expr::Paren(p) => self.place(&p.expr),
            Expr::Reference(r) => self.place(&r.expr),
            _ => Err(format!("place expression at line {}", e.span().start().line)),
        }
    }
}

fn subst(t: &LTy, params: &[String], args: &[LTy]) -> LTy {
    match t {
        LTy::Param(p) => match params.iter().position(|x| x == p) {
            Some(i) if i < args.len() => args[i].clone(),
            _ => t.clone(),
        },
        LTy::Adt(n, a) => LTy::Adt(n.clone(), a.iter().map(|x| subst(x, params, args)).collect()),
        LTy::Opt(x) => LTy::Opt(Box::new(subst(x, params, args))),
        LTy::Io(x) => LTy::Io(Box::new(subst(x, params, args))),
        _ => t.clone(),
    }
}

/// Lean type text of the main translator's registry → `LTy`
fn lean_to_lty(t: &str) -> LTy {
    match t {
        "UInt8" | "UInt16" | "UInt32" | "UInt64" | "Int64" => LTy::Int(t.into()),
        "Bool" => LTy::Bool,
        "Bytes" => LTy::Bytes,
        _ => {
            if let Some(inner) = t.strip_prefix("(Rs.Cow ").and_then(|x| x.strip_suffix(')')) {
                return match lean_to_lty(inner) {
                    LTy::Unknown => LTy::Unknown,
                    x => LTy::Cow(Box::new(x)),
                };
            }
            match t.strip_prefix("Gen.") {
                Some(n) if !n.contains(' ') => LTy::Adt(n.into(), vec![]),
                _ => LTy::Unknown,
            }
        }
    }
}

include!("t6l_ex.rs");
