//! Tier T6, reader glue (helper t6r): `ZipArchive::new`, `find_content`, `by_index*`, the decision functions
//! `make_crypto_reader` / `make_reader`, `read_zipfile_from_stream`.
//!
//! Additional vocabulary (semantics in `ZipVerif/Basic/RsGlue.lean`):
//!   * an OWNED reader parameter `mut reader: R` (`R` a `Read [+ Seek]` type parameter): the device of the
//!     monad, like `reader: &mut R`; `&mut reader` is the reader argument of a callee; moving it into the result
//!     (`ZipArchive { reader, .. }`) has no effect;
//!   * `Vec<T>` (`T ≠ u8`) → `Rs.Vec T`, `HashMap<K, V>` → `Rs.HashMap K V`, `Arc<T>` → `T`;
//!     `Vec::with_capacity(n)` / `HashMap::with_capacity(n)` (the requested capacity is part of the value; the
//!     element types come from the declared field types of the structure literal the local ends up in),
//!     `v.push(x)`, `v.len()`, `m.insert(k, v)`, `Arc::new(x)`;
//!   * `for _ in lo..hi { body }` / `for i in lo..hi { body }` in READ mode → `Rs.R.forRange`.
use super::*;
use std::cell::RefCell;

thread_local! {
    /// enum variant "Enum::Variant" → names of its named fields, in declaration order
    static VARIANT_FIELDS: RefCell<HashMap<String, Vec<String>>> = RefCell::new(HashMap::new());
    /// Lean names of the generated functions that take the `ext` parameter
    static EXT_FNS: RefCell<HashSet<String>> = RefCell::new(HashSet::new());
}

pub(crate) fn register_variant_fields(e: &ItemEnum) {
    for v in e.variants.iter().filter(|v| cfg_on(&v.attrs)) {
        if let Fields::Named(n) = &v.fields {
            let names: Vec<String> = n.named.iter().map(|f| f.ident.as_ref().unwrap().to_string()).collect();
            VARIANT_FIELDS.with(|m| m.borrow_mut().insert(format!("{}::{}", e.ident, v.ident), names));
        }
    }
}
fn variant_fields(en: &str, v: &str) -> Option<Vec<String>> {
    VARIANT_FIELDS.with(|m| m.borrow().get(&format!("{en}::{v}")).cloned())
}
pub(crate) fn variant_fields_of(en: &str, v: &str) -> Option<Vec<String>> {
    variant_fields(en, v)
}
pub(crate) fn mark_ext_fn(lean: &str) {
    EXT_FNS.with(|s| { s.borrow_mut().insert(lean.to_string()); });
}
pub(crate) fn is_ext_fn(lean: &str) -> bool {
    EXT_FNS.with(|s| s.borrow().contains(lean))
}

/// Is one of the parameters an `io::Take<..>`?
pub(crate) fn has_take_param(sig: &Signature) -> bool {
    sig.inputs.iter().any(|a| matches!(a, FnArg::Typed(t) if matches!(&*t.ty, Type::Path(p) if path_last(&p.path) == "Take")))
}

/// Does a `match` used as a value leave the function successfully from one of its arms (`return Ok(..)`), directly
/// or from a nested `match`?
pub(crate) fn match_escapes(reg: &Registry, m: &ExprMatch) -> bool {
    struct V<'r> { reg: &'r Registry, found: bool }
    impl<'r, 'ast> syn::visit::Visit<'ast> for V<'r> {
        fn visit_expr(&mut self, e: &'ast Expr) {
            if let Expr::Return(r) = e {
                let is_err = match r.expr.as_deref() {
                    Some(Expr::Call(c)) => match &*c.func {
                        Expr::Path(p) if p.path.segments.len() == 1 => {
                            let f = path_last(&p.path);
                            f == "Err" || self.reg.errfns.contains_key(&f)
                        }
                        _ => false,
                    },
                    _ => false,
                };
                if !is_err {
                    self.found = true;
                }
            }
            if matches!(e, Expr::Closure(_)) {
                return;
            }
            syn::visit::visit_expr(self, e);
        }
    }
    let mut v = V { reg, found: false };
    for a in &m.arms {
        syn::visit::Visit::visit_expr(&mut v, &a.body);
    }
    v.found
}

/// Does the signature take the reader BY VALUE (`mut reader: R`, `R` a type parameter of the function or of the
/// enclosing impl)?  Returns the parameter's name.
pub(crate) fn owned_reader(sig: &Signature, impl_generics: Option<&Generics>) -> Option<String> {
    let mut tps: Vec<String> = vec![];
    for g in sig.generics.params.iter().chain(impl_generics.iter().flat_map(|g| g.params.iter())) {
        if let GenericParam::Type(tp) = g {
            let read = tp.bounds.iter().any(|b| matches!(b, TypeParamBound::Trait(tb) if path_last(&tb.path) == "Read"));
            if read {
                tps.push(tp.ident.to_string());
            }
        }
    }
    for a in &sig.inputs {
        if let FnArg::Typed(t) = a {
            if let Type::Path(p) = &*t.ty {
                if tps.iter().any(|tp| p.path.is_ident(tp.as_str())) {
                    if let Pat::Ident(id) = &*t.pat {
                        return Some(id.ident.to_string());
                    }
                }
            }
        }
    }
    None
}

/// `reader: &mut (impl Read [+ Seek])`: index among the typed parameters, name, Seek?
pub(crate) fn impl_reader(sig: &Signature) -> Option<(usize, String, bool)> {
    let mut k = 0;
    for a in &sig.inputs {
        if let FnArg::Typed(t) = a {
            if let Type::Reference(r) = &*t.ty {
                let mut elem = &*r.elem;
                while let Type::Paren(p) = elem {
                    elem = &*p.elem;
                }
                if let (Some(_), Type::ImplTrait(it)) = (&r.mutability, elem) {
                    let mut read = false;
                    let mut seek = false;
                    let mut other = false;
                    for b in &it.bounds {
                        match b {
                            TypeParamBound::Trait(tb) => match path_last(&tb.path).as_str() {
                                "Read" => read = true,
                                "Seek" => seek = true,
                                _ => other = true,
                            },
                            _ => other = true,
                        }
                    }
                    if read && !other {
                        if let Pat::Ident(id) = &*t.pat {
                            return Some((k, id.ident.to_string(), seek));
                        }
                    }
                }
            }
            k += 1;
        }
    }
    None
}

/// Does the body perform `place.store(v)` (an `AtomicU64` cell of a shared structure)?
struct HasStore {
    found: bool,
}
impl<'ast> syn::visit::Visit<'ast> for HasStore {
    fn visit_expr_method_call(&mut self, m: &'ast ExprMethodCall) {
        if m.method == "store" && m.args.len() == 1 && matches!(&*m.receiver, Expr::Field(_)) {
            self.found = true;
        }
        syn::visit::visit_expr_method_call(self, m);
    }
}
pub(crate) fn has_store(b: &Block) -> bool {
    let mut v = HasStore { found: false };
    syn::visit::Visit::visit_block(&mut v, b);
    v.found
}

/// Look-ahead for `let mut x = Vec::with_capacity(..)`: a structure literal of a registered structure with a
/// field initialised by the bare local `x` fixes the type.
struct FieldOf<'r> {
    reg: &'r Registry,
    name: String,
    found: Option<String>,
}
impl<'r, 'ast> syn::visit::Visit<'ast> for FieldOf<'r> {
    fn visit_expr_struct(&mut self, s: &'ast ExprStruct) {
        if self.found.is_none() {
            let st = path_last(&s.path);
            for f in &s.fields {
                if let (Member::Named(n), Expr::Path(_)) = (&f.member, &f.expr) {
                    if path_ident(&f.expr).as_deref() == Some(&self.name) {
                        if let Some(t) = self.reg.struct_fields.get(&st).and_then(|m| m.get(&n.to_string())) {
                            self.found = Some(t.clone());
                        }
                    }
                }
            }
        }
        syn::visit::visit_expr_struct(self, s);
    }
}

fn is_coll_ctor(e: &Expr) -> Option<(String, String)> {
    if let Expr::Call(c) = e {
        if let Expr::Path(p) = &*c.func {
            if p.path.segments.len() >= 2 {
                let first = p.path.segments[p.path.segments.len() - 2].ident.to_string();
                let name = path_last(&p.path);
                if (first == "Vec" || first == "HashMap") && (name == "with_capacity" || name == "new") {
                    return Some((first, name));
                }
            }
        }
    }
    None
}

impl<'a> Tr<'a> {
    /// Is `a` the function's reader passed on to a callee (`reader` for a `&mut` parameter, `&mut reader` for an
    /// owned one)?
    pub(crate) fn is_reader_arg(&self, a: &Expr) -> bool {
        if self.reader_self.is_some() {
            return self.t6r2_is_self_reader(a);
        }
        if self.reader.is_none() {
            return false;
        }
        if self.reader_owned {
            if let Expr::Reference(r) = a {
                return r.mutability.is_some() && matches!(&*r.expr, Expr::Path(_)) && path_ident(&r.expr) == self.reader;
            }
            return false;
        }
        path_ident(a) == self.reader
    }

    /// The type of `let [mut] name = Vec::with_capacity(..)` / `HashMap::…`, from the look-ahead.
    pub(crate) fn coll_local_type(&self, name: &str, init: &Expr) -> Option<String> {
        let (kind, _) = is_coll_ctor(init)?;
        let mut v = FieldOf { reg: self.reg, name: name.to_string(), found: None };
        for s in &self.rest {
            syn::visit::Visit::visit_stmt(&mut v, s);
        }
        let t = v.found?;
        let ok = (kind == "Vec" && t.starts_with("(Rs.Vec ")) || (kind == "HashMap" && t.starts_with("(Rs.HashMap "));
        if ok { Some(t) } else { None }
    }

    /// `Vec::with_capacity(n)`, `HashMap::with_capacity(n)`, `Vec::new()`, `HashMap::new()`, `Arc::new(x)`.
    pub(crate) fn t6r_call(&mut self, first: &str, name: &str, c: &ExprCall, exp: Option<String>) -> R<Option<String>> {
        if !self.t5() {
            return Ok(None);
        }
        match (first, name) {
            ("Vec", "with_capacity") | ("HashMap", "with_capacity") if c.args.len() == 1 => {
                let pre = if first == "Vec" { "(Rs.Vec " } else { "(Rs.HashMap " };
                if !exp.as_deref().map(|t| t.starts_with(pre)).unwrap_or(false) {
                    return Err(format!("{first}::with_capacity whose element type is not evident"));
                }
                self.expect = Some("UInt64".into());
                let n = self.expr(&c.args[0])?;
                Ok(Some(format!("(Rs.{first}.with_capacity {n})")))
            }
            ("Vec", "new") | ("HashMap", "new") if c.args.is_empty() => {
                let pre = if first == "Vec" { "(Rs.Vec " } else { "(Rs.HashMap " };
                if !exp.as_deref().map(|t| t.starts_with(pre)).unwrap_or(false) {
                    return Err(format!("{first}::new whose element type is not evident"));
                }
                Ok(Some(format!("Rs.{first}.new")))
            }
            ("Arc", "new") if c.args.len() == 1 => {
                self.expect = exp;
                let x = self.expr(&c.args[0])?;
                Ok(Some(format!("(Rs.Arc.new {x})")))
            }
            _ => Ok(None),
        }
    }

    /// `v.push(x)`, `v.len()`, `m.insert(k, v)` on a local collection.
    pub(crate) fn t6r_method(&mut self, m: &ExprMethodCall) -> R<Option<String>> {
        if !self.t5() {
            return Ok(None);
        }
        let name = m.method.to_string();
        // `p.cell.store(v)`: `p` a `&Struct` parameter, `cell` a field the generated structure does not have
        // (an `AtomicU64`): the effect is recorded in the function's list of stores
        if name == "store" && m.args.len() == 1 && self.mode == Mode::R {
            if let (Some(st), Expr::Field(f)) = (self.rstores.clone(), &*m.receiver) {
                if let (Some(base), Member::Named(cell), Expr::Path(_)) = (path_ident(&f.base), &f.member, &*f.base) {
                    let bt = self.vars.get(&base).cloned().unwrap_or_default();
                    let sname = bt.strip_prefix("Gen.").unwrap_or("").to_string();
                    // the cell is either absent from the generated structure or (since the writer state machine
                    // needs `data_start`) present as its `u64` value; `.store(..)` exists on the atomic cell only
                    let dropped = self.reg.struct_fields.get(&sname).map(|m| m.get(&cell.to_string()).map(|t| t == "UInt64").unwrap_or(true)).unwrap_or(false);
                    if dropped && !self.mut_vars.contains(&base) {
                        self.expect = Some("UInt64".into());
                        let v = self.expr(&m.args[0])?;
                        self.emit(format!("{st} := {st} ++ [(\"{base}.{cell}\", {v})]"));
                        return Ok(Some("()".into()));
                    }
                }
            }
            return Err("store into something other than an atomic cell of a parameter".into());
        }
        // `(reader as &mut dyn Read).take(n)`
        if name == "take" && m.args.len() == 1 && self.mode == Mode::R {
            let mut r = &*m.receiver;
            loop {
                match r {
                    Expr::Paren(p) => r = &*p.expr,
                    Expr::Cast(c) => r = &*c.expr,
                    Expr::Reference(x) => r = &*x.expr,
                    _ => break,
                }
            }
            if matches!(r, Expr::Path(_)) && path_ident(r) == self.reader && self.reader.is_some() {
                self.expect = Some("UInt64".into());
                let n = self.expr(&m.args[0])?;
                return Ok(Some(format!("(Rs.R.take {n})")));
            }
        }
        let rt = match self.type_of(&m.receiver) {
            Some(t) => t,
            None => return Ok(None),
        };
        let is_vec = rt.starts_with("(Rs.Vec ");
        let is_map = rt.starts_with("(Rs.HashMap ");
        if !is_vec && !is_map {
            return Ok(None);
        }
        let local = match (&*m.receiver, path_ident(&m.receiver)) {
            (Expr::Path(_), Some(v)) if self.mut_vars.contains(&v) => Some(v),
            _ => None,
        };
        match name.as_str() {
            "len" if is_vec && m.args.is_empty() => {
                let recv = self.expr(&m.receiver)?;
                Ok(Some(format!("(Rs.Vec.len {recv})")))
            }
            "get" if is_vec && m.args.len() == 1 => {
                let recv = self.expr(&m.receiver)?;
                self.expect = Some("UInt64".into());
                let i = self.expr(&m.args[0])?;
                Ok(Some(format!("(Rs.Vec.get {recv} {i})")))
            }
            "get" if is_map && m.args.len() == 1 => {
                let recv = self.expr(&m.receiver)?;
                let k = self.expr(&m.args[0])?;
                Ok(Some(format!("(Rs.HashMap.get {recv} {k})")))
            }
            "push" if is_vec && m.args.len() == 1 => {
                let v = local.ok_or("push on something that is not a local `mut` vector")?;
                let elem = rt.strip_prefix("(Rs.Vec ").and_then(|x| x.strip_suffix(')')).map(|x| x.to_string());
                self.expect = elem;
                let x = self.expr(&m.args[0])?;
                self.emit(format!("{v} := Rs.Vec.push {v} {x}"));
                Ok(Some("()".into()))
            }
            "insert" if is_map && m.args.len() == 2 => {
                let v = local.ok_or("insert on something that is not a local `mut` map")?;
                let k = self.expr(&m.args[0])?;
                self.expect = Some("UInt64".into());
                let x = self.expr(&m.args[1])?;
                self.emit(format!("{v} := Rs.HashMap.insert {v} {k} {x}"));
                // the previous value (`Option<V>`) is dropped by the statement
                Ok(Some("()".into()))
            }
            _ => Err(format!("unsupported collection method .{name}()")),
        }
    }

    /// READ mode: `for i in lo..hi { body }` → `Rs.R.forRange lo hi body` over the loop-carried variables.
    pub(crate) fn t6r_for_range(&mut self, f: &ExprForLoop) -> R<()> {
        if f.label.is_some() {
            return Err("labelled loop".into());
        }
        if self.in_loop > 0 {
            return Err("nested loop".into());
        }
        if self.nontail_sub > 0 {
            return Err("loop inside a nested value block".into());
        }
        let range = match &*f.expr {
            Expr::Range(r) if matches!(r.limits, RangeLimits::HalfOpen(_)) && r.start.is_some() && r.end.is_some() => r,
            _ => return Err("for loop over something other than `lo..hi`".into()),
        };
        let ivar = match &*f.pat {
            Pat::Wild(_) => None,
            Pat::Ident(id) if id.by_ref.is_none() && id.mutability.is_none() => Some(id.ident.to_string()),
            _ => return Err("for pattern".into()),
        };
        let mut esc = Escapes { reg: self.reg, found: false };
        syn::visit::Visit::visit_block(&mut esc, &f.body);
        if esc.found {
            return Err("break / continue / successful return / nested loop inside a for loop".into());
        }
        let (start, end) = (range.start.as_ref().unwrap(), range.end.as_ref().unwrap());
        let bt = self.type_of(end).or_else(|| self.type_of(start));
        if bt.as_deref() != Some("UInt64") {
            return Err("for loop whose bounds are not evidently u64 / usize".into());
        }
        self.expect = Some("UInt64".into());
        let lo = self.expr(start)?;
        self.expect = Some("UInt64".into());
        let hi = self.expr(end)?;
        let mut av = AssignedVars { reg: self.reg, out: vec![], declared: vec![] };
        syn::visit::Visit::visit_block(&mut av, &f.body);
        let mut state: Vec<String> = vec![];
        for v in &av.out {
            if Some(v) == self.reader.as_ref() {
                continue;
            }
            if av.declared.contains(v) {
                if self.vars.contains_key(v) || self.untyped.contains(v) {
                    return Err(format!("loop body both declares and assigns `{v}`"));
                }
                continue;
            }
            if !self.mut_vars.contains(v) {
                return Err(format!("assignment to `{v}`, which is not a local `mut` variable"));
            }
            if !state.contains(v) {
                state.push(v.clone());
            }
        }
        if state.is_empty() {
            return Err("for loop without loop-carried variables".into());
        }
        let mut uses = UsedIdents { out: vec![] };
        syn::visit::Visit::visit_block(&mut uses, &f.body);
        let mut free: Vec<(String, String)> = vec![];
        for u in &uses.out {
            if state.contains(u) || av.declared.contains(u) || free.iter().any(|(n, _)| n == u) || Some(u) == ivar.as_ref() {
                continue;
            }
            if self.untyped.contains(u) {
                return Err(format!("loop uses `{u}`, whose type is not known"));
            }
            if Some(u) == self.reader.as_ref() {
                continue;
            }
            if let Some(t) = self.vars.get(u) {
                free.push((u.clone(), t.clone()));
            }
        }
        let mut state_tys = vec![];
        for v in &state {
            state_tys.push(self.vars.get(v).cloned().ok_or(format!("loop-carried `{v}` of unknown type"))?);
        }
        let st = if state.len() == 1 { state[0].clone() } else { format!("({})", state.join(", ")) };
        let st_ty = if state.len() == 1 { state_tys[0].clone() } else { format!("({})", state_tys.join(" × ")) };
        self.n_loops += 1;
        let base = format!("{}.loop{}", self.lean_name, self.n_loops);
        let fparams: String = free.iter().map(|(n, t)| format!(" ({n} : {t})")).collect();
        let fargs: String = free.iter().map(|(n, _)| format!(" {n}")).collect();
        let iname = ivar.clone().unwrap_or_else(|| "_i".to_string());
        let destruct = if state.len() == 1 { format!("let {} := st", state[0]) } else { format!("let ({}) := st", state.join(", ")) };
        let saved_lines = std::mem::take(&mut self.lines);
        let saved_indent = self.indent;
        let saved_vars = self.vars.clone();
        let saved_mut = self.mut_vars.clone();
        let saved_untyped = self.untyped.clone();
        let outer_rest = std::mem::take(&mut self.rest);
        self.indent = 1;
        // a successful `return` inside the body is not expressible: keep the translator from emitting one
        self.nontail_sub += 1;
        if let Some(i) = &ivar {
            self.vars.insert(i.clone(), "UInt64".into());
            self.mut_vars.remove(i);
        }
        let r: R<Vec<String>> = (|| {
            self.emit(destruct.clone());
            for v in &state {
                self.emit(format!("let mut {v} := {v}"));
            }
            self.stmts(&f.body.stmts)?;
            self.emit(format!("pure {st}"));
            Ok(std::mem::take(&mut self.lines))
        })();
        self.nontail_sub -= 1;
        self.lines = saved_lines;
        self.indent = saved_indent;
        self.vars = saved_vars;
        self.mut_vars = saved_mut;
        self.untyped = saved_untyped;
        self.rest = outer_rest;
        let body_lines = r?;
        self.aux.push(format!("def {base}_body{fparams} ({iname} : UInt64) (st : {st_ty}) : Model.M {st_ty} := do\n{}\n", body_lines.join("\n")));
        let t = self.fresh();
        self.emit(format!("let {t} : {st_ty} ← Rs.R.forRange {lo} {hi} ({base}_body{fargs}) {st}"));
        if state.len() == 1 {
            self.emit(format!("{} := {t}", state[0]));
        } else {
            for (k, v) in state.iter().enumerate() {
                let mut proj = String::new();
                for _ in 0..k { proj += ".2"; }
                if k + 1 < state.len() { proj += ".1"; }
                self.emit(format!("{v} := {t}{proj}"));
            }
        }
        Ok(())
    }

    /// Types the generic synthesis does not see: enum variant constructors `Enum::Variant(..)` / `Enum::Variant { .. }`.
    pub(crate) fn t6r_type_of(&self, e: &Expr) -> Option<String> {
        let path = match e {
            Expr::Call(c) => match &*c.func {
                Expr::Path(p) => &p.path,
                _ => return None,
            },
            Expr::Struct(s) => &s.path,
            _ => return None,
        };
        if path.segments.len() < 2 {
            return None;
        }
        let first = path.segments[path.segments.len() - 2].ident.to_string();
        let name = path_last(path);
        let vs = self.reg.enums.get(&first)?;
        if vs.iter().any(|(v, p)| *v == name && *p) { Some(format!("Gen.{first}")) } else { None }
    }

    pub(crate) fn t6r_is_variant_struct(&self, s: &ExprStruct) -> bool {
        if s.path.segments.len() < 2 {
            return false;
        }
        let first = s.path.segments[s.path.segments.len() - 2].ident.to_string();
        variant_fields(&first, &path_last(&s.path)).is_some() && self.reg.enums.contains_key(&first)
    }

    /// `Enum::Variant { a: x, b }` → `(Gen.Enum.Variant x b)` (arguments in declaration order; the initialisers are
    /// evaluated in source order)
    pub(crate) fn t6r_variant_struct(&mut self, s: &ExprStruct) -> R<String> {
        let first = s.path.segments[s.path.segments.len() - 2].ident.to_string();
        let name = path_last(&s.path);
        let fields = variant_fields(&first, &name).ok_or("variant fields")?;
        if s.rest.is_some() {
            return Err("struct update syntax".into());
        }
        let mut vals: HashMap<String, String> = HashMap::new();
        for f in &s.fields {
            if let Member::Named(n) = &f.member {
                let v = self.expr(&f.expr)?;
                vals.insert(n.to_string(), v);
            } else {
                return Err("unnamed field".into());
            }
        }
        let mut args = vec![];
        for f in &fields {
            args.push(vals.get(f).cloned().ok_or(format!("missing field {f}"))?);
        }
        Ok(format!("(Gen.{first}.{name} {})", args.join(" ")))
    }

    /// Statement-level `if let PAT = e { A } else { B }`: the two-armed statement-level `match`.
    pub(crate) fn t6r_if_let(&mut self, i: &ExprIf, l: &ExprLet) -> R<()> {
        let pat = &*l.pat;
        let scrut = &*l.expr;
        let then_b = &i.then_branch;
        let m: ExprMatch = match &i.else_branch {
            Some((_, e)) => syn::parse_quote!(match #scrut { #pat => #then_b, _ => #e }),
            None => syn::parse_quote!(match #scrut { #pat => #then_b, _ => {} }),
        };
        self.stmt_match(None, &m)
    }

    /// A `match` used as a value whose arms may leave the function with `return Ok(..)`: emitted as the do-element
    /// `let t ← match … with | p => stmts; pure v` (a `return` inside an arm then ends the whole function).
    pub(crate) fn t6r_match_elem(&mut self, m: &ExprMatch, exp: Option<String>) -> R<String> {
        if self.nontail_sub > 0 {
            return Err("return inside a nested value block".into());
        }
        if self.in_loop > 0 {
            return Err("value match with return inside a loop".into());
        }
        let arms: Vec<&Arm> = m.arms.iter().filter(|a| cfg_on(&a.attrs)).collect();
        if arms.iter().any(|a| a.guard.is_some()) {
            return Err("match guard".into());
        }
        if arms.iter().any(|a| matches!(a.pat, Pat::Lit(PatLit { lit: Lit::Int(_), .. }) | Pat::Range(_))) {
            return Err("value match on integers with return".into());
        }
        let hint = exp.or_else(|| self.hint.take()).or_else(|| self.type_of(&Expr::Match(m.clone())));
        self.hint = None;
        let scrut_ty = self.type_of(&m.expr);
        let scrut = self.expr(&m.expr)?;
        let t = self.fresh();
        match &hint {
            Some(h) => self.emit(format!("let {t} : {h} ← match {scrut} with")),
            None => self.emit(format!("let {t} ← match {scrut} with")),
        }
        let base = self.indent;
        for a in &arms {
            let p = self.pat_lean(&a.pat)?;
            self.indent = base + 2;
            self.emit(format!("| {p} =>"));
            self.indent = base + 3;
            let saved_vars = self.vars.clone();
            let saved_mut = self.mut_vars.clone();
            let saved_untyped = self.untyped.clone();
            self.bind_pat_vars(&a.pat, scrut_ty.as_deref());
            let outer_rest = std::mem::take(&mut self.rest);
            let r: R<()> = (|| {
                if let Expr::Return(_) = &*a.body {
                    return self.stmt_expr(&a.body);
                }
                self.expect = hint.clone();
                let v = self.expr(&a.body)?;
                self.emit(format!("pure {v}"));
                Ok(())
            })();
            self.rest = outer_rest;
            self.vars = saved_vars;
            self.mut_vars = saved_mut;
            self.untyped = saved_untyped;
            self.indent = base;
            r?;
        }
        Ok(t)
    }

    /// External layer constructors followed by `?` (vocabulary table, semantics in `Basic/RsGlue.lean`):
    /// `AesReader::new(r, mode, size).validate(pw)?`, `ZipCryptoReader::new(r, pw).validate(v)?`.
    pub(crate) fn t6r_ext_try(&mut self, m: &ExprMethodCall) -> R<Option<String>> {
        if self.mode != Mode::R || m.method != "validate" || m.args.len() != 1 {
            return Ok(None);
        }
        let c = match &*m.receiver {
            Expr::Call(c) => c,
            _ => return Ok(None),
        };
        let p = match &*c.func {
            Expr::Path(p) if p.path.segments.len() >= 2 => p,
            _ => return Ok(None),
        };
        let first = p.path.segments[p.path.segments.len() - 2].ident.to_string();
        if path_last(&p.path) != "new" {
            return Ok(None);
        }
        let (op, n, ty) = match first.as_str() {
            "AesReader" => ("Rs.R.aes_validate", 3, "(Option (Rs.AesValid Gen.AesMode))"),
            "ZipCryptoReader" => ("Rs.R.zc_validate", 2, "(Option (Rs.ZcValid Gen.ZipCryptoValidator))"),
            _ => return Ok(None),
        };
        if c.args.len() != n {
            return Err(format!("{first}::new with {} arguments", c.args.len()));
        }
        let mut args = vec![];
        for a in &c.args {
            args.push(self.expr(a)?);
        }
        args.push(self.expr(&m.args[0])?);
        self.uses_ext = true;
        Ok(Some(self.bind_typed(format!("{op} ext {}", args.join(" ")), Some(ty.into()))))
    }
}
