//! Tier T6, reader glue continued (helper t6r2): `make_reader`, `by_index*` / `by_name*`,
//! `read_zipfile_from_stream`.
//!
//! Additional vocabulary (semantics in `ZipVerif/Basic/RsGlue.lean`):
//!   * item kinds `xstruct Name` (a generic structure another generated module declares, `Gen.Name R`) and
//!     `xfn Type::f` (an associated function another generated module declares in the panic monad `Option`);
//!   * the external decoder types `DeflateDecoder<R>`, `BzDecoder<R>`, `ZstdDecoder<R>`, `io::BufReader<R>` are
//!     opaque records of their inner reader (`Rs.DeflateDecoder R`, …); `T::new(r)` builds them,
//!     `ZstdDecoder::new(r)` is an `io::Result` (`.unwrap()` → `Rs.unwrapRes`);
//!   * `matches!(e, PAT)` → `(match e with | PAT => true | _ => false)`; struct-like variant patterns
//!     `Enum::V { f: P, .. }` (positional, in declaration order); `panic!(..)` → `none` (Pure mode).
use super::*;
use std::cell::RefCell;

thread_local! {
    /// generic structures declared by another generated module (`xstruct`)
    static GSTRUCTS: RefCell<HashSet<String>> = RefCell::new(HashSet::new());
    /// enums emitted without `deriving DecidableEq, Repr`
    static NO_DERIVE: RefCell<HashSet<String>> = RefCell::new(HashSet::new());
    /// structure → the field whose type is a bare type parameter of the structure (`reader: R`)
    static READER_FIELD: RefCell<HashMap<String, String>> = RefCell::new(HashMap::new());
    /// Lean names of the generated functions whose value is paired with the list of their `store` effects
    static STORE_FNS: RefCell<HashSet<String>> = RefCell::new(HashSet::new());
}

pub(crate) fn register_reader_field(st: &ItemStruct) {
    let tps: Vec<String> = st.generics.params.iter().filter_map(|g| if let GenericParam::Type(t) = g { Some(t.ident.to_string()) } else { None }).collect();
    if let Fields::Named(n) = &st.fields {
        for f in &n.named {
            if let Type::Path(p) = &f.ty {
                if tps.iter().any(|t| p.path.is_ident(t.as_str())) {
                    READER_FIELD.with(|m| m.borrow_mut().insert(st.ident.to_string(), f.ident.as_ref().unwrap().to_string()));
                }
            }
        }
    }
}
pub(crate) fn reader_field(st: &str) -> Option<String> {
    READER_FIELD.with(|m| m.borrow().get(st).cloned())
}
pub(crate) fn mark_store_fn(lean: &str) {
    STORE_FNS.with(|s| { s.borrow_mut().insert(lean.to_string()); });
}
pub(crate) fn is_store_fn(lean: &str) -> bool {
    STORE_FNS.with(|s| s.borrow().contains(lean))
}

/// A method (`&self` / `&mut self`) of `impl<R: Read [+ Seek]> T<R>` where `T` keeps its reader in a field of type
/// `R`: the device of the method is that field.  Returns whether `R: Seek`.
pub(crate) fn self_reader(self_ty: Option<&str>, sig: &Signature, impl_generics: Option<&Generics>) -> Option<bool> {
    let st = self_ty?;
    reader_field(st)?;
    let recv = sig.inputs.iter().find_map(|a| if let FnArg::Receiver(r) = a { Some(r) } else { None })?;
    recv.reference.as_ref()?;
    if sig.generics.params.iter().any(|g| !matches!(g, GenericParam::Lifetime(_))) {
        return None;
    }
    let g = impl_generics?;
    let mut res = None;
    let mut n = 0;
    for p in &g.params {
        if let GenericParam::Type(tp) = p {
            n += 1;
            let mut read = false;
            let mut seek = false;
            for b in &tp.bounds {
                if let TypeParamBound::Trait(tb) = b {
                    match path_last(&tb.path).as_str() {
                        "Read" => read = true,
                        "Seek" => seek = true,
                        _ => return None,
                    }
                }
            }
            if read {
                res = Some(seek);
            }
        }
    }
    if n == 1 { res } else { None }
}

/// `ZipError::PASSWORD_REQUIRED`
pub(crate) fn is_password_required(e: &Expr) -> bool {
    if let Expr::Path(p) = e {
        let segs: Vec<String> = p.path.segments.iter().map(|s| s.ident.to_string()).collect();
        return segs.len() == 2 && segs[0] == "ZipError" && segs[1] == "PASSWORD_REQUIRED";
    }
    false
}

/// `(Except E T)` → (E, T)
pub(crate) fn split_except(t: &str) -> Option<(String, String)> {
    let inner = t.strip_prefix("(Except ")?.strip_suffix(')')?;
    let mut depth = 0;
    for (i, ch) in inner.char_indices() {
        match ch {
            '(' => depth += 1,
            ')' => depth -= 1,
            ' ' if depth == 0 => return Some((inner[..i].to_string(), inner[i + 1..].to_string())),
            _ => {}
        }
    }
    None
}

/// Does the body call a function whose stores have to be passed on?
pub(crate) fn calls_store_fn(self_ty: Option<&str>, b: &Block) -> bool {
    struct V<'x> { self_ty: Option<&'x str>, found: bool }
    impl<'x, 'ast> syn::visit::Visit<'ast> for V<'x> {
        fn visit_expr_call(&mut self, c: &'ast ExprCall) {
            if let Expr::Path(p) = &*c.func {
                let name = path_last(&p.path);
                let lean = if p.path.segments.len() == 1 { format!("Gen.{name}") } else { format!("Gen.{}.{name}", p.path.segments[p.path.segments.len() - 2].ident) };
                if is_store_fn(&lean) {
                    self.found = true;
                }
            }
            syn::visit::visit_expr_call(self, c);
        }
        fn visit_expr_method_call(&mut self, m: &'ast ExprMethodCall) {
            if let (Some(st), Expr::Path(p)) = (self.self_ty, &*m.receiver) {
                if p.path.is_ident("self") && is_store_fn(&format!("Gen.{st}.{}", m.method)) {
                    self.found = true;
                }
            }
            syn::visit::visit_expr_method_call(self, m);
        }
    }
    let mut v = V { self_ty, found: false };
    syn::visit::Visit::visit_block(&mut v, b);
    v.found
}

pub(crate) fn register_gstruct(n: &str) {
    GSTRUCTS.with(|s| { s.borrow_mut().insert(n.to_string()); });
}
pub(crate) fn is_gstruct(n: &str) -> bool {
    GSTRUCTS.with(|s| s.borrow().contains(n))
}
pub(crate) fn mark_no_derive(n: &str) {
    NO_DERIVE.with(|s| { s.borrow_mut().insert(n.to_string()); });
}
/// Can an enum with a payload of this Lean type derive `DecidableEq, Repr`?
pub(crate) fn derivable_payload(t: &str) -> bool {
    if t.contains("Rs.DeflateDecoder") || t.contains("Rs.BzDecoder") || t.contains("Rs.ZstdDecoder") || t.contains("Rs.BufReader") || t.contains("Rs.ZcValid") || t.contains("Rs.AesValid") || t.contains("Rs.Cow") {
        return false;
    }
    let no_gs = GSTRUCTS.with(|s| s.borrow().iter().all(|g| !t.contains(&format!("Gen.{g}"))));
    let no_nd = NO_DERIVE.with(|s| s.borrow().iter().all(|g| !t.contains(&format!("Gen.{g}"))));
    no_gs && no_nd
}

/// external opaque reader types of the vocabulary: Rust name → Lean type constructor (one type argument)
pub(crate) fn ext_reader_type(n: &str) -> Option<&'static str> {
    Some(match n {
        "DeflateDecoder" => "Rs.DeflateDecoder",
        "BzDecoder" => "Rs.BzDecoder",
        "ZstdDecoder" => "Rs.ZstdDecoder",
        "BufReader" => "Rs.BufReader",
        _ => return None,
    })
}

/// `matches!(e, PAT)`: the two parts
fn parse_matches(ts: proc_macro2::TokenStream) -> R<(Expr, Pat)> {
    struct MM(Expr, Pat);
    impl syn::parse::Parse for MM {
        fn parse(input: syn::parse::ParseStream) -> syn::Result<Self> {
            let e: Expr = input.parse()?;
            let _: Token![,] = input.parse()?;
            let p = Pat::parse_multi_with_leading_vert(input)?;
            if input.peek(Token![if]) {
                return Err(input.error("matches! with a guard"));
            }
            let _: Option<Token![,]> = input.parse()?;
            if !input.is_empty() {
                return Err(input.error("trailing tokens"));
            }
            Ok(MM(e, p))
        }
    }
    let m: MM = syn::parse2(ts).map_err(|e| format!("matches!: {e}"))?;
    Ok((m.0, m.1))
}

impl<'a> Tr<'a> {
    /// `Type<Arg>` for a generic structure of another generated module or an external reader type
    pub(crate) fn t6r2_ty(&self, name: &str, args: &[&Type]) -> Option<R<String>> {
        if args.len() != 1 {
            return None;
        }
        if name == "Cow" {
            return Some(self.ty(args[0]).map(|a| format!("(Rs.Cow {a})")));
        }
        if is_gstruct(name) {
            return Some(self.ty(args[0]).map(|a| format!("(Gen.{name} {a})")));
        }
        if let Some(l) = ext_reader_type(name) {
            return Some(self.ty(args[0]).map(|a| format!("({l} {a})")));
        }
        None
    }

    /// `&mut self.reader` / a local bound to it
    pub(crate) fn t6r2_is_self_reader(&self, a: &Expr) -> bool {
        let f = match &self.reader_self { Some(f) => f, None => return false };
        match a {
            Expr::Reference(r) if r.mutability.is_some() => match &*r.expr {
                Expr::Field(fe) => matches!(&*fe.base, Expr::Path(p) if p.path.is_ident("self")) && matches!(&fe.member, Member::Named(n) if n == f),
                _ => false,
            },
            Expr::Path(p) if p.path.segments.len() == 1 => self.reader_aliases.contains(&path_last(&p.path)),
            _ => false,
        }
    }

    /// `let reader = &mut self.reader;`: a name for the device, no effect
    pub(crate) fn t6r2_reader_alias(&mut self, l: &Local) -> bool {
        if self.reader_self.is_none() {
            return false;
        }
        if let (Pat::Ident(id), Some(init)) = (&l.pat, &l.init) {
            if init.diverge.is_none() && matches!(&*init.expr, Expr::Reference(_)) && self.t6r2_is_self_reader(&init.expr) {
                self.reader_aliases.insert(id.ident.to_string());
                return true;
            }
        }
        false
    }

    /// `v.get(i)` on a `Vec<T>` / `m.get(k)` on a `HashMap<K, V>`
    pub(crate) fn t6r2_type_of(&self, e: &Expr) -> Option<String> {
        if let Expr::MethodCall(m) = e {
            if m.method == "get" && m.args.len() == 1 {
                let rt = self.type_of(&m.receiver)?;
                if let Some(x) = rt.strip_prefix("(Rs.Vec ").and_then(|x| x.strip_suffix(')')) {
                    return Some(format!("(Option {x})"));
                }
                if rt.starts_with("(Rs.HashMap ") {
                    let inner = rt.strip_prefix("(Rs.HashMap ")?.strip_suffix(')')?;
                    // the value type is the last top-level component
                    let mut depth = 0;
                    let mut last = 0;
                    for (i, ch) in inner.char_indices() {
                        match ch {
                            '(' => depth += 1,
                            ')' => depth -= 1,
                            ' ' if depth == 0 => last = i + 1,
                            _ => {}
                        }
                    }
                    return Some(format!("(Option {})", &inner[last..]));
                }
            }
        }
        if let Expr::Call(c) = e {
            if let Expr::Path(p) = &*c.func {
                if p.path.segments.len() >= 2 && p.path.segments[p.path.segments.len() - 2].ident == "Cow" && c.args.len() == 1 {
                    return self.type_of(&c.args[0]).map(|t| format!("(Rs.Cow {t})"));
                }
            }
        }
        None
    }

    /// The callee of `f(..)` records stores: the label under which the caller passes them on (the text of the
    /// first argument that is a plain local, i.e. the structure the callee stores through).
    pub(crate) fn t6r2_store_label(&self, c: &ExprCall) -> Option<String> {
        let p = match &*c.func { Expr::Path(p) => p, _ => return None };
        let name = path_last(&p.path);
        let lean = if p.path.segments.len() == 1 { format!("Gen.{name}") } else { format!("Gen.{}.{name}", p.path.segments[p.path.segments.len() - 2].ident) };
        if !is_store_fn(&lean) {
            return None;
        }
        for a in &c.args {
            if let (Expr::Path(_), Some(v)) = (a, path_ident(a)) {
                if !self.reader_aliases.contains(&v) && Some(&v) != self.reader.as_ref() {
                    return Some(v);
                }
            }
        }
        Some(String::new())
    }

    /// `let (v, st) ← act`, the callee's stores appended to the function's own
    pub(crate) fn t6r2_bind_store(&mut self, act: String, label: String) -> R<String> {
        let st = self.rstores.clone().ok_or("call of a store-recording function from a function without a store list")?;
        let t1 = self.fresh();
        let t2 = self.fresh();
        self.emit(format!("let ({t1}, {t2}) ← {act}"));
        self.emit(format!("{st} := {st} ++ Rs.Stores.via \"{label}\" {t2}"));
        Ok(t1)
    }

    /// `self.method(args)` on a translated method of the same structure (device = `self.reader`): the action
    fn t6r2_self_callee(&mut self, m: &ExprMethodCall) -> R<Option<(String, bool)>> {
        if self.mode != Mode::R || self.reader_self.is_none() || !matches!(&*m.receiver, Expr::Path(p) if p.path.is_ident("self")) {
            return Ok(None);
        }
        let st = self.self_ty.clone().unwrap_or_default();
        let key = format!("{st}::{}", m.method);
        let mi = match self.reg.methods.get(&key) { Some(mi) if mi.has_self && mi.fi.mode == Mode::R => mi.clone(), _ => return Ok(None) };
        if self.failed.contains(&key) {
            return Err(format!("calls the untranslated {key}"));
        }
        if mi.fi.seek && !self.seekable {
            return Err(format!("{key} needs a Seek reader"));
        }
        let mut args = vec![];
        for a in &m.args {
            args.push(self.expr(a)?);
        }
        let lean = format!("Gen.{st}.{}", m.method);
        let ext = if t6r::is_ext_fn(&lean) { self.uses_ext = true; " ext" } else { "" };
        let a = if args.is_empty() { String::new() } else { format!(" {}", args.join(" ")) };
        Ok(Some((format!("{lean}{ext} self{a}"), is_store_fn(&lean))))
    }

    /// `self.method(args)?`
    pub(crate) fn t6r2_self_call(&mut self, m: &ExprMethodCall) -> R<Option<String>> {
        match self.t6r2_self_callee(m)? {
            None => Ok(None),
            Some((act, true)) => Ok(Some(self.t6r2_bind_store(act, "self".into())?)),
            Some((act, false)) => Ok(Some(self.bind_typed(act, None))),
        }
    }

    /// Result position: `self.method(args)` (the callee's outcome is the function's own) and
    /// `opt.ok_or(e).and_then(move |x| body)` (bind: `x` is the `Ok` value, `body` the rest of the function; a `?`
    /// inside the closure leaves the closure with the `Err`, which `and_then` returns unchanged).
    pub(crate) fn t6r2_tail_method(&mut self, m: &ExprMethodCall) -> R<Option<String>> {
        if let Some((act, store)) = self.t6r2_self_callee(m)? {
            if store {
                return Ok(Some(self.t6r2_bind_store(act, "self".into())?));
            }
            let ty = self.ret_ty.clone();
            return Ok(Some(self.bind_typed(act, ty)));
        }
        // `res.map_err(|_| e)` in result position: the mapped `Result` is the function's outcome
        if m.method == "map_err" && m.args.len() == 1 && self.reader_self.is_some() {
            if let Expr::Closure(cl) = &m.args[0] {
                if cl.inputs.len() == 1 && matches!(cl.inputs[0], Pat::Wild(_)) {
                    if self.nontail_sub > 0 || self.in_loop > 0 {
                        return Err("map_err in a nested block".into());
                    }
                    let recv = self.expr(&m.receiver)?;
                    let mark = self.lines.len();
                    let e = self.expr(&cl.body)?;
                    if self.lines.len() != mark {
                        return Err("map_err closure with effects".into());
                    }
                    let ty = self.ret_ty.clone();
                    return Ok(Some(self.bind_typed(format!("Rs.R.of_result (Rs.mapErr {recv} {e})"), ty)));
                }
            }
            return Ok(None);
        }
        if m.method == "and_then" && m.args.len() == 1 {
            let cl = match &m.args[0] { Expr::Closure(cl) if cl.inputs.len() == 1 => cl, _ => return Ok(None) };
            let var = match &cl.inputs[0] { Pat::Ident(id) if id.by_ref.is_none() && id.mutability.is_none() => id.ident.to_string(), _ => return Ok(None) };
            let ok = match &*m.receiver { Expr::MethodCall(r) if r.method == "ok_or" && r.args.len() == 1 => r, _ => return Ok(None) };
            if self.nontail_sub > 0 || self.in_loop > 0 {
                return Err("and_then in a nested block".into());
            }
            let ty = self.type_of(&Expr::MethodCall(ok.clone()));
            let recv = self.expr(&ok.receiver)?;
            let mark = self.lines.len();
            let e = self.expr(&ok.args[0])?;
            if self.lines.len() != mark {
                return Err("ok_or argument with effects".into());
            }
            let t = self.bind_typed(format!("Rs.R.ok_or {recv} {e}"), ty.clone());
            match &ty {
                Some(ty) => {
                    self.emit(format!("let {var} : {ty} := {t}"));
                    self.untyped.remove(&var);
                    self.vars.insert(var.clone(), ty.clone());
                }
                None => {
                    self.emit(format!("let {var} := {t}"));
                    self.vars.remove(&var);
                    self.untyped.insert(var.clone());
                }
            }
            self.mut_vars.remove(&var);
            self.tail = true;
            self.expect = self.ret_ty.clone();
            return Ok(Some(self.expr(&cl.body)?));
        }
        Ok(None)
    }

    /// `Enum::V { f: P, .. }` → `(Gen.Enum.V p1 … pn)`, unnamed fields are `_`
    pub(crate) fn t6r2_pat_struct(&self, ps: &PatStruct) -> R<String> {
        if ps.path.segments.len() < 2 {
            return Err("struct pattern".into());
        }
        let first = ps.path.segments[ps.path.segments.len() - 2].ident.to_string();
        let first = if first == "Self" { self.self_ty.clone().unwrap_or_default() } else { first };
        let name = path_last(&ps.path);
        let fields = t6r::variant_fields_of(&first, &name).ok_or("struct pattern of an unknown variant")?;
        if !self.reg.enums.contains_key(&first) {
            return Err("struct pattern of an unknown enum".into());
        }
        let mut given: HashMap<String, String> = HashMap::new();
        for f in &ps.fields {
            match &f.member {
                Member::Named(n) => {
                    if !fields.contains(&n.to_string()) {
                        return Err(format!("pattern field {n}"));
                    }
                    given.insert(n.to_string(), self.pat_lean(&f.pat)?);
                }
                _ => return Err("unnamed pattern field".into()),
            }
        }
        if ps.rest.is_none() && given.len() != fields.len() {
            return Err("struct pattern without `..` that omits fields".into());
        }
        let args: Vec<String> = fields.iter().map(|f| given.get(f).cloned().unwrap_or_else(|| "_".into())).collect();
        Ok(format!("(Gen.{first}.{name} {})", args.join(" ")))
    }

    /// `matches!(e, PAT)`
    pub(crate) fn t6r2_matches(&mut self, m: &ExprMacro) -> R<String> {
        let (e, p) = parse_matches(m.mac.tokens.clone())?;
        let scrut = self.expr(&e)?;
        let pat = self.pat_lean(&p)?;
        let mut binds = PatBinds { found: false };
        syn::visit::Visit::visit_pat(&mut binds, &p);
        if binds.found {
            return Err("matches! with a binding pattern".into());
        }
        Ok(format!("(match {scrut} with | {pat} => true | _ => false)"))
    }

    /// constructors of the external reader types
    pub(crate) fn t6r2_call(&mut self, first: &str, name: &str, c: &ExprCall) -> R<Option<String>> {
        if first == "Cow" && (name == "Borrowed" || name == "Owned") && c.args.len() == 1 {
            let a = self.expr(&c.args[0])?;
            return Ok(Some(format!("(Rs.Cow.{name} {a})")));
        }
        if first == "String" && name == "new" && c.args.is_empty() {
            return Ok(Some("([] : Bytes)".into()));
        }
        if name != "new" || c.args.len() != 1 {
            return Ok(None);
        }
        let l = match ext_reader_type(first) {
            Some(l) => l,
            None => return Ok(None),
        };
        let a = self.expr(&c.args[0])?;
        Ok(Some(format!("({l}.new {a})")))
    }

    /// a pattern that names a translated integer constant (`spec::LOCAL_FILE_HEADER_SIGNATURE`)
    pub(crate) fn t6r2_const_pat(&self, p: &Pat) -> Option<String> {
        let path = match p {
            Pat::Path(pp) => &pp.path,
            _ => return None,
        };
        let n = path_last(path);
        if self.reg.consts.contains(&n) && self.reg.const_ty.get(&n).map(|t| int_ty(t)).unwrap_or(false) {
            Some(format!("Gen.{n}"))
        } else {
            None
        }
    }

    /// `ZstdDecoder::new(r).unwrap()`: `unwrap` of an `io::Result`; `res.unwrap()` on a value of `Result` type
    pub(crate) fn t6r2_unwrap(&mut self, m: &ExprMethodCall) -> R<Option<String>> {
        if m.method != "unwrap" || !m.args.is_empty() {
            return Ok(None);
        }
        if self.type_of(&m.receiver).as_deref().and_then(split_except).is_some() {
            let v = self.expr(&m.receiver)?;
            return Ok(Some(self.bind_m(format!("Rs.unwrapRes {v}"))));
        }
        if let Expr::Call(c) = &*m.receiver {
            if let Expr::Path(p) = &*c.func {
                if p.path.segments.len() >= 2 && path_last(&p.path) == "new" {
                    let first = p.path.segments[p.path.segments.len() - 2].ident.to_string();
                    if first == "ZstdDecoder" {
                        let v = self.expr(&m.receiver)?;
                        return Ok(Some(self.bind_m(format!("Rs.unwrapRes {v}"))));
                    }
                }
            }
        }
        Ok(None)
    }
}

/// does a pattern bind a variable?
struct PatBinds {
    found: bool,
}
impl<'ast> syn::visit::Visit<'ast> for PatBinds {
    fn visit_pat_ident(&mut self, p: &'ast PatIdent) {
        let n = p.ident.to_string();
        // unit variants / `None` are written like identifiers
        if n.chars().next().map(|c| c.is_lowercase()).unwrap_or(false) {
            self.found = true;
        }
        syn::visit::visit_pat_ident(self, p);
    }
}
