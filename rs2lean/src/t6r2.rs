//! Tier T6, reader glue continued (helper t6r2): `make_reader`, `by_index*` / `by_name*`,
//! `read_zipfile_from_stream`.
//!
//! Additional vocabulary (semantics in `ZipVerif/Basic/RsGlue.lean`):
//!   * item kinds `xstruct Name` (a generic structure another generated module declares, `Gen.Name R`) and
//!     `xfn Type::f` (an associated function another generated module declares in the panic monad `Option`);
//!   * the external decoder types `DeflateDecoder<R>`, `BzDecoder<R>`, `ZstdDecoder<R>`, `io::BufReader<R>` are
//!     opaque records of their inner reader (`Rs.DeflateDecoder R`, …); `T::new(r)` builds them,
//!     `ZstdDecoder::new(r)` is an `io::Result` (`.unwrap()` → `Rs.unwrapRes`);
//!   * `matches!(e, PAT)` → `(match e with | PAT => true | _ => false)`; struct-like variant patterns
//!     `Enum::V { f: P, .. }` (positional, in declaration order); `panic!(..)` → `none` (Pure mode).
use super::*;
use std::cell::RefCell;

thread_local! {
    /// generic structures declared by another generated module (`xstruct`)
    static GSTRUCTS: RefCell<HashSet<String>> = RefCell::new(HashSet::new());
    /// enums emitted without `deriving DecidableEq, Repr`
    static NO_DERIVE: RefCell<HashSet<String>> = RefCell::new(HashSet::new());
}

pub(crate) fn register_gstruct(n: &str) {
    GSTRUCTS.with(|s| { s.borrow_mut().insert(n.to_string()); });
}
pub(crate) fn is_gstruct(n: &str) -> bool {
    GSTRUCTS.with(|s| s.borrow().contains(n))
}
pub(crate) fn mark_no_derive(n: &str) {
    NO_DERIVE.with(|s| { s.borrow_mut().insert(n.to_string()); });
}
/// Can an enum with a payload of this Lean type derive `DecidableEq, Repr`?
pub(crate) fn derivable_payload(t: &str) -> bool {
    if t.contains("Rs.DeflateDecoder") || t.contains("Rs.BzDecoder") || t.contains("Rs.ZstdDecoder") || t.contains("Rs.BufReader") || t.contains("Rs.ZcValid") || t.contains("Rs.AesValid") || t.contains("Rs.Cow") {
        return false;
    }
    let no_gs = GSTRUCTS.with(|s| s.borrow().iter().all(|g| !t.contains(&format!("Gen.{g}"))));
    let no_nd = NO_DERIVE.with(|s| s.borrow().iter().all(|g| !t.contains(&format!("Gen.{g}"))));
    no_gs && no_nd
}

/// external opaque reader types of the vocabulary: Rust name → Lean type constructor (one type argument)
pub(crate) fn ext_reader_type(n: &str) -> Option<&'static str> {
    Some(match n {
        "DeflateDecoder" => "Rs.DeflateDecoder",
        "BzDecoder" => "Rs.BzDecoder",
        "ZstdDecoder" => "Rs.ZstdDecoder",
        "BufReader" => "Rs.BufReader",
        _ => return None,
    })
}

/// `matches!(e, PAT)`: the two parts
fn parse_matches(ts: proc_macro2::TokenStream) -> R<(Expr, Pat)> {
    struct MM(Expr, Pat);
    impl syn::parse::Parse for MM {
        fn parse(input: syn::parse::ParseStream) -> syn::Result<Self> {
            let e: Expr = input.parse()?;
            let _: Token![,] = input.parse()?;
            let p = Pat::parse_multi_with_leading_vert(input)?;
            if input.peek(Token![if]) {
                return Err(input.error("matches! with a guard"));
            }
            let _: Option<Token![,]> = input.parse()?;
            if !input.is_empty() {
                return Err(input.error("trailing tokens"));
            }
            Ok(MM(e, p))
        }
    }
    let m: MM = syn::parse2(ts).map_err(|e| format!("matches!: {e}"))?;
    Ok((m.0, m.1))
}

impl<'a> Tr<'a> {
    /// `Type<Arg>` for a generic structure of another generated module or an external reader type
    pub(crate) fn t6r2_ty(&self, name: &str, args: &[&Type]) -> Option<R<String>> {
        if args.len() != 1 {
            return None;
        }
        if is_gstruct(name) {
            return Some(self.ty(args[0]).map(|a| format!("(Gen.{name} {a})")));
        }
        if let Some(l) = ext_reader_type(name) {
            return Some(self.ty(args[0]).map(|a| format!("({l} {a})")));
        }
        None
    }

    /// `Enum::V { f: P, .. }` → `(Gen.Enum.V p1 … pn)`, unnamed fields are `_`
    pub(crate) fn t6r2_pat_struct(&self, ps: &PatStruct) -> R<String> {
        if ps.path.segments.len() < 2 {
            return Err("struct pattern".into());
        }
        let first = ps.path.segments[ps.path.segments.len() - 2].ident.to_string();
        let first = if first == "Self" { self.self_ty.clone().unwrap_or_default() } else { first };
        let name = path_last(&ps.path);
        let fields = t6r::variant_fields_of(&first, &name).ok_or("struct pattern of an unknown variant")?;
        if !self.reg.enums.contains_key(&first) {
            return Err("struct pattern of an unknown enum".into());
        }
        let mut given: HashMap<String, String> = HashMap::new();
        for f in &ps.fields {
            match &f.member {
                Member::Named(n) => {
                    if !fields.contains(&n.to_string()) {
                        return Err(format!("pattern field {n}"));
                    }
                    given.insert(n.to_string(), self.pat_lean(&f.pat)?);
                }
                _ => return Err("unnamed pattern field".into()),
            }
        }
        if ps.rest.is_none() && given.len() != fields.len() {
            return Err("struct pattern without `..` that omits fields".into());
        }
        let args: Vec<String> = fields.iter().map(|f| given.get(f).cloned().unwrap_or_else(|| "_".into())).collect();
        Ok(format!("(Gen.{first}.{name} {})", args.join(" ")))
    }

    /// `matches!(e, PAT)`
    pub(crate) fn t6r2_matches(&mut self, m: &ExprMacro) -> R<String> {
        let (e, p) = parse_matches(m.mac.tokens.clone())?;
        let scrut = self.expr(&e)?;
        let pat = self.pat_lean(&p)?;
        let mut binds = PatBinds { found: false };
        syn::visit::Visit::visit_pat(&mut binds, &p);
        if binds.found {
            return Err("matches! with a binding pattern".into());
        }
        Ok(format!("(match {scrut} with | {pat} => true | _ => false)"))
    }

    /// constructors of the external reader types
    pub(crate) fn t6r2_call(&mut self, first: &str, name: &str, c: &ExprCall) -> R<Option<String>> {
        if name != "new" || c.args.len() != 1 {
            return Ok(None);
        }
        let l = match ext_reader_type(first) {
            Some(l) => l,
            None => return Ok(None),
        };
        let a = self.expr(&c.args[0])?;
        Ok(Some(format!("({l}.new {a})")))
    }

    /// `ZstdDecoder::new(r).unwrap()`: `unwrap` of an `io::Result`
    pub(crate) fn t6r2_unwrap(&mut self, m: &ExprMethodCall) -> R<Option<String>> {
        if m.method != "unwrap" || !m.args.is_empty() {
            return Ok(None);
        }
        if let Expr::Call(c) = &*m.receiver {
            if let Expr::Path(p) = &*c.func {
                if p.path.segments.len() >= 2 && path_last(&p.path) == "new" {
                    let first = p.path.segments[p.path.segments.len() - 2].ident.to_string();
                    if first == "ZstdDecoder" {
                        let v = self.expr(&m.receiver)?;
                        return Ok(Some(self.bind_m(format!("Rs.unwrapRes {v}"))));
                    }
                }
            }
        }
        Ok(None)
    }
}

/// does a pattern bind a variable?
struct PatBinds {
    found: bool,
}
impl<'ast> syn::visit::Visit<'ast> for PatBinds {
    fn visit_pat_ident(&mut self, p: &'ast PatIdent) {
        let n = p.ident.to_string();
        // unit variants / `None` are written like identifiers
        if n.chars().next().map(|c| c.is_lowercase()).unwrap_or(false) {
            self.found = true;
        }
        syn::visit::visit_pat_ident(self, p);
    }
}
