//! Tier T6, helper t6r3: HANDLE mode - the methods of the entry handle `ZipFile` and of the enums it holds
//! (`ZipFileReader`, `CryptoReader`): the `into_inner` chains, `ZipFile::drain_stream`, `Drop for ZipFile`
//! (src/read.rs).  Semantics of the vocabulary: `ZipVerif/Basic/RsH.lean`.
//!
//!   item kind `hfn Type::method`:
//!     `fn f(self) -> T` (no I/O)                        →  Gen.Type.f (self : Gen.Type) : Option T
//!     `fn f(&mut self, …) -> io::Result<T>`/`ZipResult` →  Gen.Type.f [fuel] (self) (…) : Model.M (Except ZErr T × Gen.Type)
//!     `fn f(&mut self)` (`Drop::drop`)                  →  Gen.Type.f [fuel] (self) : Model.M Gen.Type
//!   every exit site of a `&mut self` method is `return (value, self)` with the current `self`.
//!
//! Constructs (each translated by ONE rule, none keyed on a function name):
//!   * `match` in value / statement / tail position (arms are do-sequences; an arm may leave the function);
//!     a scrutinee `&mut place`: an identifier pattern binds an ALIAS of the place; `if let P = e { .. }`;
//!     `P if g => A, P => B` (the same pattern twice in a row) is `| P => if g then A else B`;
//!   * places `self.field`; `place.take()` on an `Option`, `mem::replace(alias, v)`;
//!   * method calls by the TYPE of the receiver: `into_inner` / `finish` of `Crc32Reader` (the layer translation's
//!     function), of the external decoders and decryption layers (`Rs.*.into_inner`), of the translated enums;
//!     `take.read(&mut buf)` on locals (`Rs.H.take_read`); `self.m()` on a translated `&mut self` method;
//!   * `[lit; n]` for a local that is later handed to `.read(&mut _)` (a byte buffer); `a << k` on literals (checked);
//!   * `loop { .. }` with `break` / `return` → `Rs.H.loop` over the `mut` locals the body mentions, fuel = the
//!     generated function's parameter `fuel`;
//!   * `e.kind() == io::ErrorKind::K` → `Rs.H.kindIs`; `panic!` → the panic of the monad.
//! Anything else makes the item `untranslated`.
use super::*;
use std::cell::RefCell;

#[derive(Clone)]
struct HInfo {
    /// Lean type of the `Ok` value; `None` for a unit-returning `&mut self` method
    res: Option<String>,
    pure_fn: bool,
    fuel: bool,
}

thread_local! {
    static HFNS: RefCell<HashMap<String, HInfo>> = RefCell::new(HashMap::new());
}

#[derive(Clone, Debug)]
enum Val {
    Atom(String, Option<String>),
    Diverges,
}

#[derive(Clone, PartialEq)]
enum Kind {
    /// by-value `self`, no I/O: the panic monad
    Pure,
    /// `&mut self`, returns a `Result`
    Res,
    /// `&mut self`, returns nothing
    UnitMut,
}

struct H<'a> {
    reg: &'a Registry,
    failed: &'a HashSet<String>,
    all: &'a [&'a Item],
    self_ty: String,
    lean_name: String,
    kind: Kind,
    /// Lean type of the function's result value (`Except ZErr T` in `Res` mode)
    ret_ty: String,
    lines: Vec<String>,
    indent: usize,
    n: usize,
    /// local → (Lean type, declared `mut`)
    vars: HashMap<String, (Option<String>, bool)>,
    /// pattern identifier bound by `match &mut place` → (place text, type)
    alias: HashMap<String, (String, Option<String>)>,
    aux: Vec<String>,
    uses_fuel: bool,
    n_loops: usize,
    /// inside a loop body: the loop-carried variables
    loop_state: Option<Vec<String>>,
    body_text: String,
}

fn variant_payload(h: &H, en: &str, v: &str) -> R<Vec<String>> {
    for it in h.all {
        if let Item::Enum(e) = it {
            if e.ident == en && cfg_on(&e.attrs) {
                for var in e.variants.iter().filter(|x| cfg_on(&x.attrs)) {
                    if var.ident == v {
                        let tr = Tr::new(h.reg, h.failed, Some(en.to_string()), 0);
                        let mut out = vec![];
                        match &var.fields {
                            Fields::Unit => {}
                            Fields::Unnamed(u) => {
                                for f in &u.unnamed {
                                    out.push(tr.ty(&f.ty)?);
                                }
                            }
                            Fields::Named(n) => {
                                for f in &n.named {
                                    out.push(tr.ty(&f.ty)?);
                                }
                            }
                        }
                        return Ok(out);
                    }
                }
            }
        }
    }
    Err(format!("variant {en}::{v}"))
}

/// `(Head A)` → ("Head", "A")
fn split_app(t: &str) -> Option<(String, String)> {
    let inner = t.strip_prefix('(')?.strip_suffix(')')?;
    let i = inner.find(' ')?;
    Some((inner[..i].to_string(), inner[i + 1..].to_string()))
}

fn io_kind(k: &str) -> Option<&'static str> {
    Some(match k {
        "Interrupted" => "interrupted",
        "UnexpectedEof" => "unexpectedEof",
        "Other" => "other",
        "InvalidData" => "invalidData",
        "InvalidInput" => "invalidInput",
        "WriteZero" => "writeZero",
        "BrokenPipe" => "brokenPipe",
        _ => return None,
    })
}

fn strip_ref(e: &Expr) -> &Expr {
    match e {
        Expr::Reference(r) => strip_ref(&r.expr),
        Expr::Paren(p) => strip_ref(&p.expr),
        Expr::Group(g) => strip_ref(&g.expr),
        _ => e,
    }
}

fn pat_key(p: &Pat) -> String {
    // the pattern modulo `ref` / `mut` binding modes
    let s = quote::quote!(#p).to_string();
    s.replace("ref ", "").replace("mut ", "")
}

impl<'a> H<'a> {
    fn emit(&mut self, s: String) {
        self.lines.push(format!("{}{}", "  ".repeat(self.indent), s));
    }
    fn fresh(&mut self) -> String {
        self.n += 1;
        format!("t{}", self.n)
    }
    fn ty(&self, t: &Type) -> R<String> {
        Tr::new(self.reg, self.failed, Some(self.self_ty.clone()), 0).ty(t)
    }
    fn m_mode(&self) -> bool {
        self.kind != Kind::Pure
    }
    /// bind a panic-monad computation
    fn bind_opt(&mut self, rhs: String) -> String {
        let t = self.fresh();
        if self.m_mode() {
            self.emit(format!("let {t} ← Rs.H.lift ({rhs})"));
        } else {
            self.emit(format!("let {t} ← {rhs}"));
        }
        t
    }
    fn diverge_panic(&mut self) {
        if self.m_mode() {
            self.emit("Model.M.panic \"rs2lean: panic\"".into());
        } else {
            self.emit("none".into());
        }
    }

    /// a place expression: `self.field`, an alias, a local
    fn place(&self, e: &Expr) -> Option<(String, Option<String>)> {
        match strip_ref(e) {
            Expr::Field(f) => {
                if let (Expr::Path(p), Member::Named(n)) = (&*f.base, &f.member) {
                    if p.path.is_ident("self") && self.m_mode() {
                        let ty = self.reg.struct_fields.get(&self.self_ty).and_then(|m| m.get(&n.to_string())).cloned();
                        return Some((format!("self.{n}"), ty));
                    }
                }
                None
            }
            Expr::Path(p) if p.path.segments.len() == 1 => {
                let v = path_last(&p.path);
                if let Some((pl, ty)) = self.alias.get(&v) {
                    return Some((pl.clone(), ty.clone()));
                }
                None
            }
            _ => None,
        }
    }
    /// `place := v`
    fn assign_place(&mut self, place: &str, v: &str) -> R<()> {
        if self.loop_state.is_some() {
            return Err("assignment to a place of `self` inside a loop".into());
        }
        if let Some(f) = place.strip_prefix("self.") {
            if !f.contains('.') {
                self.emit(format!("self := {{ self with {f} := {v} }}"));
                return Ok(());
            }
        }
        Err(format!("assignment to the place {place}"))
    }

    fn pat(&self, p: &Pat, sty: Option<&str>, binds: &mut Vec<(String, Option<String>)>) -> R<String> {
        match p {
            Pat::Wild(_) => Ok("_".into()),
            Pat::Lit(PatLit { lit: Lit::Int(i), .. }) => Ok(lit_str(i).0),
            Pat::Ident(id) => {
                let n = id.ident.to_string();
                if n == "None" {
                    return Ok("none".into());
                }
                if id.subpat.is_some() {
                    return Err("`@` pattern".into());
                }
                binds.push((n.clone(), sty.map(|s| s.to_string())));
                Ok(n)
            }
            Pat::Tuple(t) if t.elems.is_empty() => Ok("()".into()),
            Pat::Path(pp) => {
                let segs: Vec<String> = pp.path.segments.iter().map(|s| s.ident.to_string()).collect();
                if segs.len() == 1 && segs[0] == "None" {
                    return Ok("none".into());
                }
                if segs.len() >= 2 {
                    let (en, v) = (&segs[segs.len() - 2], &segs[segs.len() - 1]);
                    if self.reg.enums.get(en).map(|vs| vs.iter().any(|(n, p)| n == v && !*p)).unwrap_or(false) {
                        return Ok(format!("Gen.{en}.{v}"));
                    }
                }
                Err("path pattern".into())
            }
            Pat::TupleStruct(ts) => {
                let segs: Vec<String> = ts.path.segments.iter().map(|s| s.ident.to_string()).collect();
                let last = segs.last().cloned().unwrap_or_default();
                let one = |h: &Self, sub: Option<String>, binds: &mut Vec<(String, Option<String>)>| -> R<String> {
                    if ts.elems.len() != 1 {
                        return Err("constructor pattern arity".into());
                    }
                    h.pat(&ts.elems[0], sub.as_deref(), binds)
                };
                if segs.len() == 1 {
                    match last.as_str() {
                        "Some" => {
                            let sub = sty.and_then(split_app).filter(|(h, _)| h == "Option").map(|(_, a)| a);
                            return Ok(format!("(some {})", one(self, sub, binds)?));
                        }
                        "Ok" | "Err" => {
                            let parts = sty.and_then(t6r2::split_except);
                            let sub = parts.map(|(e, t)| if last == "Ok" { t } else { e });
                            let c = if last == "Ok" { "Except.ok" } else { "Except.error" };
                            return Ok(format!("({c} {})", one(self, sub, binds)?));
                        }
                        _ => return Err(format!("pattern {last}")),
                    }
                }
                let en = &segs[segs.len() - 2];
                if en == "Cow" && (last == "Owned" || last == "Borrowed") {
                    let sub = sty.and_then(split_app).filter(|(h, _)| h == "Rs.Cow").map(|(_, a)| a);
                    return Ok(format!("(Rs.Cow.{last} {})", one(self, sub, binds)?));
                }
                if self.reg.enums.contains_key(en) {
                    let tys = variant_payload(self, en, &last)?;
                    if tys.len() != ts.elems.len() {
                        return Err("variant pattern arity".into());
                    }
                    let mut ps = vec![];
                    for (q, t) in ts.elems.iter().zip(tys.iter()) {
                        ps.push(self.pat(q, Some(t), binds)?);
                    }
                    return Ok(format!("(Gen.{en}.{last} {})", ps.join(" ")));
                }
                Err(format!("pattern {en}::{last}"))
            }
            Pat::Struct(ps) => {
                let segs: Vec<String> = ps.path.segments.iter().map(|s| s.ident.to_string()).collect();
                if segs.len() < 2 {
                    return Err("struct pattern".into());
                }
                let (en, v) = (&segs[segs.len() - 2], &segs[segs.len() - 1]);
                let names = t6r::variant_fields_of(en, v).ok_or("struct pattern of an unknown variant")?;
                let tys = variant_payload(self, en, v)?;
                let mut given: HashMap<String, String> = HashMap::new();
                for f in &ps.fields {
                    let n = match &f.member { Member::Named(n) => n.to_string(), _ => return Err("unnamed pattern field".into()) };
                    let idx = names.iter().position(|x| *x == n).ok_or(format!("pattern field {n}"))?;
                    given.insert(n, self.pat(&f.pat, Some(&tys[idx]), binds)?);
                }
                if ps.rest.is_none() && given.len() != names.len() {
                    return Err("struct pattern without `..` that omits fields".into());
                }
                let args: Vec<String> = names.iter().map(|f| given.get(f).cloned().unwrap_or_else(|| "_".into())).collect();
                Ok(format!("(Gen.{en}.{v} {})", args.join(" ")))
            }
            Pat::Reference(r) => self.pat(&r.pat, sty, binds),
            _ => Err("pattern form".into()),
        }
    }

    fn guard(&mut self, g: &Expr) -> R<String> {
        if let Expr::Binary(b) = g {
            if matches!(b.op, BinOp::Eq(_)) {
                if let (Expr::MethodCall(m), Expr::Path(p)) = (&*b.left, &*b.right) {
                    let segs: Vec<String> = p.path.segments.iter().map(|s| s.ident.to_string()).collect();
                    if m.method == "kind" && m.args.is_empty() && segs.len() >= 2 && segs[segs.len() - 2] == "ErrorKind" {
                        if let Some(v) = path_ident(&m.receiver) {
                            if self.vars.get(&v).and_then(|x| x.0.clone()).as_deref() == Some("ZErr") {
                                let k = io_kind(&segs[segs.len() - 1]).ok_or("error kind")?;
                                return Ok(format!("(Rs.H.kindIs {v} ZipVerif.IoKind.{k})"));
                            }
                        }
                    }
                }
            }
        }
        Err("match guard".into())
    }

    /// the arms of a `match`; `fin` says what to do with the value of an arm
    fn arms(&mut self, m_arms: &[&Arm], sty: Option<&str>, alias_place: Option<(String, Option<String>)>, fin: &mut dyn FnMut(&mut Self, Val) -> R<()>) -> R<()> {
        let base = self.indent;
        let mut i = 0;
        while i < m_arms.len() {
            let a = m_arms[i];
            let mut binds = vec![];
            // an identifier pattern under `match &mut place`: an alias of the place
            let mut alias_name = None;
            let p = if let (Pat::Ident(id), Some(_)) = (&a.pat, &alias_place) {
                if id.ident != "None" && id.subpat.is_none() {
                    alias_name = Some(id.ident.to_string());
                    "_".to_string()
                } else {
                    self.pat(&a.pat, sty, &mut binds)?
                }
            } else {
                self.pat(&a.pat, sty, &mut binds)?
            };
            self.indent = base;
            self.emit(format!("| {p} =>"));
            self.indent = base + 1;
            let saved_vars = self.vars.clone();
            let saved_alias = self.alias.clone();
            for (n, t) in &binds {
                self.vars.insert(n.clone(), (t.clone(), false));
                self.alias.remove(n);
            }
            if let (Some(n), Some(pl)) = (&alias_name, &alias_place) {
                self.alias.insert(n.clone(), pl.clone());
                self.vars.remove(n);
            }
            let r: R<usize> = (|| {
                if let Some((_, g)) = &a.guard {
                    let next = m_arms.get(i + 1).ok_or("guarded last arm")?;
                    if next.guard.is_some() || pat_key(&next.pat) != pat_key(&a.pat) {
                        return Err("guard whose fall-through is not the same pattern".into());
                    }
                    let c = self.guard(g)?;
                    self.emit(format!("if {c} then"));
                    self.indent = base + 2;
                    let v = self.expr(&a.body, None)?;
                    fin(self, v)?;
                    self.indent = base + 1;
                    self.emit("else".into());
                    self.indent = base + 2;
                    let v = self.expr(&next.body, None)?;
                    fin(self, v)?;
                    Ok(2)
                } else {
                    let v = self.expr(&a.body, None)?;
                    fin(self, v)?;
                    Ok(1)
                }
            })();
            self.vars = saved_vars;
            self.alias = saved_alias;
            self.indent = base;
            i += r?;
        }
        Ok(())
    }

    fn scrutinee(&mut self, e: &Expr) -> R<(String, Option<String>, Option<(String, Option<String>)>)> {
        // `match &mut place`: arms may alias the place
        if let Expr::Reference(r) = e {
            if r.mutability.is_some() {
                if let Some((pl, ty)) = self.place(&r.expr) {
                    return Ok((pl.clone(), ty.clone(), Some((pl, ty))));
                }
            }
        }
        match self.expr(e, None)? {
            Val::Atom(t, ty) => Ok((t, ty, None)),
            Val::Diverges => Err("diverging scrutinee".into()),
        }
    }

    /// `match` whose value is wanted
    fn match_value(&mut self, m: &ExprMatch, expect: Option<String>) -> R<Val> {
        let arms: Vec<&Arm> = m.arms.iter().filter(|a| cfg_on(&a.attrs)).collect();
        let (scrut, sty, al) = self.scrutinee(&m.expr)?;
        let t = self.fresh();
        let mark = self.lines.len();
        self.emit(String::new()); // placeholder for the header (its type is known after the arms)
        let base = self.indent;
        self.indent = base + 1;
        let mut vty: Option<String> = expect.clone();
        let mut all_div = true;
        let r = self.arms(&arms, sty.as_deref(), al, &mut |h: &mut Self, v: Val| {
            if let Val::Atom(a, ty) = v {
                all_div = false;
                if vty.is_none() {
                    vty = ty;
                }
                h.emit(format!("pure {a}"));
            }
            Ok(())
        });
        self.indent = base;
        r?;
        let pad = "  ".repeat(base);
        self.lines[mark] = match &vty {
            Some(ty) => format!("{pad}let {t} : {ty} ← match {scrut} with"),
            None => format!("{pad}let {t} ← match {scrut} with"),
        };
        if all_div {
            return Ok(Val::Diverges);
        }
        Ok(Val::Atom(t, vty))
    }

    /// `match` as a statement (value `()`), or in tail position of the function (`tail`)
    fn match_stmt(&mut self, m: &ExprMatch, tail: bool) -> R<Val> {
        let arms: Vec<&Arm> = m.arms.iter().filter(|a| cfg_on(&a.attrs)).collect();
        let (scrut, sty, al) = self.scrutinee(&m.expr)?;
        self.emit(format!("match {scrut} with"));
        let mut all_div = true;
        self.arms(&arms, sty.as_deref(), al, &mut |h: &mut Self, v: Val| {
            match v {
                Val::Atom(a, _) => {
                    all_div = false;
                    if tail {
                        h.ret(&a)?;
                    } else {
                        h.emit("pure ()".into());
                    }
                }
                Val::Diverges => {}
            }
            Ok(())
        })?;
        if tail || all_div {
            Ok(Val::Diverges)
        } else {
            Ok(Val::Atom("()".into(), Some("Unit".into())))
        }
    }

    /// leave the function with the value `v`
    fn ret(&mut self, v: &str) -> R<()> {
        if self.loop_state.is_some() {
            self.emit(format!("return Rs.Step.ret {v}"));
            return Ok(());
        }
        match self.kind {
            Kind::Pure => self.emit(format!("pure {v}")),
            Kind::Res => self.emit(format!("return ({v}, self)")),
            Kind::UnitMut => self.emit("return self".into()),
        }
        Ok(())
    }

    fn state_tuple(st: &[String]) -> String {
        if st.len() == 1 { st[0].clone() } else { format!("({})", st.join(", ")) }
    }

    fn method(&mut self, m: &ExprMethodCall) -> R<Val> {
        let name = m.method.to_string();
        // `self.f()` on a translated `&mut self` method
        if matches!(&*m.receiver, Expr::Path(p) if p.path.is_ident("self")) && self.m_mode() {
            let key = format!("{}::{}", self.self_ty, name);
            let hi = HFNS.with(|h| h.borrow().get(&key).cloned()).ok_or(format!("call of {key}, which is not a translated handle method"))?;
            if self.failed.contains(&key) || hi.pure_fn || !m.args.is_empty() {
                return Err(format!("call of {key}"));
            }
            if self.loop_state.is_some() {
                return Err("method call on `self` inside a loop".into());
            }
            let fuel = if hi.fuel { self.uses_fuel = true; " fuel" } else { "" };
            return match hi.res {
                Some(res) => {
                    let (t1, t2) = (self.fresh(), self.fresh());
                    self.emit(format!("let ({t1}, {t2}) ← Gen.{}.{name}{fuel} self", self.self_ty));
                    self.emit(format!("self := {t2}"));
                    Ok(Val::Atom(t1, Some(format!("(Except ZErr {res})"))))
                }
                None => {
                    let t1 = self.fresh();
                    self.emit(format!("let {t1} ← Gen.{}.{name}{fuel} self", self.self_ty));
                    self.emit(format!("self := {t1}"));
                    Ok(Val::Atom("()".into(), Some("Unit".into())))
                }
            };
        }
        // `place.take()` on an `Option`
        if name == "take" && m.args.is_empty() {
            if let Some((pl, Some(ty))) = self.place(&m.receiver) {
                if ty.starts_with("(Option ") {
                    let t = self.fresh();
                    self.emit(format!("let {t} := {pl}"));
                    self.assign_place(&pl, "none")?;
                    return Ok(Val::Atom(t, Some(ty)));
                }
            }
            return Err("take() on something other than an Option place".into());
        }
        // `take.read(&mut buf)` on locals
        if name == "read" && m.args.len() == 1 {
            let r = path_ident(&m.receiver).filter(|_| matches!(&*m.receiver, Expr::Path(_)));
            let b = match &m.args[0] { Expr::Reference(x) if x.mutability.is_some() && matches!(&*x.expr, Expr::Path(_)) => path_ident(&x.expr), _ => None };
            if let (Some(r), Some(b)) = (r, b) {
                let rt = self.vars.get(&r).cloned();
                let bt = self.vars.get(&b).cloned();
                if let (Some((Some(rt), true)), Some((Some(bt), true))) = (rt, bt) {
                    if rt == "Rs.Take" && bt == "Bytes" && self.m_mode() {
                        let (t1, t2, t3) = (self.fresh(), self.fresh(), self.fresh());
                        self.emit(format!("let ({t1}, {t2}, {t3}) ← Rs.H.take_read {r} {b}"));
                        self.emit(format!("{r} := {t2}"));
                        self.emit(format!("{b} := {t3}"));
                        return Ok(Val::Atom(t1, Some("(Except ZErr UInt64)".into())));
                    }
                }
            }
            return Err("read() on something other than a local `Take` with a local byte buffer".into());
        }
        // by the type of the receiver
        if (name == "into_inner" || name == "finish") && m.args.is_empty() {
            let (recv, rty) = match self.expr(&m.receiver, None)? {
                Val::Atom(t, Some(ty)) => (t, ty),
                Val::Atom(_, None) => return Err(format!(".{name}() on a receiver of unknown type")),
                Val::Diverges => return Err("diverging receiver".into()),
            };
            if let Some((head, arg)) = split_app(&rty) {
                let pure_tab: &[(&str, &str, &str)] = &[
                    ("Rs.DeflateDecoder", "into_inner", "Rs.DeflateDecoder.into_inner"),
                    ("Rs.BzDecoder", "into_inner", "Rs.BzDecoder.into_inner"),
                    ("Rs.ZstdDecoder", "finish", "Rs.ZstdDecoder.finish"),
                    ("Rs.BufReader", "into_inner", "Rs.BufReader.into_inner"),
                ];
                for (h, mm, f) in pure_tab {
                    if head == *h && name == *mm {
                        return Ok(Val::Atom(format!("({f} {recv})"), Some(arg)));
                    }
                }
                if (head == "Rs.ZcValid" || head == "Rs.AesValid") && name == "into_inner" {
                    return Ok(Val::Atom(format!("({head}.into_inner {recv})"), Some("Rs.Take".into())));
                }
                if head == "Gen.Crc32Reader" && name == "into_inner" && self.reg.methods.contains_key("Crc32Reader::into_inner") {
                    let t = self.bind_opt(format!("Gen.Crc32Reader.into_inner {recv}"));
                    return Ok(Val::Atom(t, Some(arg)));
                }
            }
            if let Some(en) = rty.strip_prefix("Gen.") {
                let key = format!("{en}::{name}");
                if let Some(hi) = HFNS.with(|h| h.borrow().get(&key).cloned()) {
                    if hi.pure_fn && !self.failed.contains(&key) {
                        let t = self.bind_opt(format!("Gen.{en}.{name} {recv}"));
                        return Ok(Val::Atom(t, hi.res));
                    }
                }
            }
            return Err(format!(".{name}() on a receiver of type {rty}"));
        }
        Err(format!("method .{name}()"))
    }

    fn block(&mut self, b: &Block, tail: bool) -> R<Val> {
        let saved_vars = self.vars.clone();
        let n = b.stmts.len();
        let mut last = Val::Atom("()".into(), Some("Unit".into()));
        for (i, s) in b.stmts.iter().enumerate() {
            let is_last = i + 1 == n;
            match s {
                Stmt::Local(l) => {
                    if !cfg_on(&l.attrs) { continue; }
                    self.local(l)?;
                    last = Val::Atom("()".into(), Some("Unit".into()));
                }
                Stmt::Expr(e, semi) => {
                    if !cfg_on(expr_attrs(e)) { continue; }
                    let v = if is_last && semi.is_none() { self.expr_pos(e, tail)? } else { self.expr_pos(e, false)? };
                    match v {
                        Val::Diverges => { last = Val::Diverges; break; }
                        v => last = if semi.is_some() { Val::Atom("()".into(), Some("Unit".into())) } else { v },
                    }
                }
                _ => return Err("item / macro statement".into()),
            }
        }
        // locals of the block go out of scope (none of the supported types has a `Drop` the translation observes)
        let keep: HashMap<String, (Option<String>, bool)> = self.vars.iter().filter(|(k, _)| saved_vars.contains_key(*k)).map(|(k, v)| (k.clone(), v.clone())).collect();
        self.vars = keep;
        Ok(last)
    }

    /// an expression in statement / tail position
    fn expr_pos(&mut self, e: &Expr, tail: bool) -> R<Val> {
        match e {
            Expr::Match(m) if tail => self.match_stmt(m, true),
            Expr::Match(m) if m.arms.iter().all(|a| is_unit_or_diverges(&a.body)) => self.match_stmt(m, false),
            Expr::If(i) => {
                if let Expr::Let(l) = &*i.cond {
                    if i.else_branch.is_some() {
                        return Err("if let with else".into());
                    }
                    let (pat, scrut, body) = (&*l.pat, &*l.expr, &i.then_branch);
                    let m: ExprMatch = syn::parse_quote!(match #scrut { #pat => #body, _ => () });
                    return self.match_stmt(&m, false);
                }
                Err("if".into())
            }
            Expr::Loop(l) => self.loop_(l),
            _ => {
                let v = self.expr(e, None)?;
                if tail {
                    if let Val::Atom(a, _) = &v {
                        self.ret(a)?;
                        return Ok(Val::Diverges);
                    }
                }
                Ok(v)
            }
        }
    }

    fn local(&mut self, l: &Local) -> R<()> {
        let init = l.init.as_ref().ok_or("let without initialiser")?;
        if init.diverge.is_some() {
            return Err("let-else".into());
        }
        let (pat, decl_ty) = match &l.pat {
            Pat::Type(pt) => (&*pt.pat, Some(self.ty(&pt.ty)?)),
            p => (p, None),
        };
        match pat {
            Pat::Wild(_) => {
                match self.expr(&init.expr, None)? {
                    Val::Atom(a, _) => self.emit(format!("let _ := {a}")),
                    Val::Diverges => return Err("diverging initialiser".into()),
                }
                Ok(())
            }
            Pat::Ident(id) if id.by_ref.is_none() && id.subpat.is_none() => {
                let name = id.ident.to_string();
                let is_mut = id.mutability.is_some();
                // `[lit; n]` for a buffer that is later handed to `.read(&mut name)`
                let v = if let Expr::Repeat(rp) = &*init.expr {
                    if !self.body_text.contains(&format!("read (& mut {name})")) {
                        return Err("array whose element type is not evident".into());
                    }
                    let elem = match &*rp.expr { Expr::Lit(ExprLit { lit: Lit::Int(i), .. }) if i.suffix().is_empty() => lit_str(i).0, _ => return Err("array element".into()) };
                    let len = match self.expr(&rp.len, Some("UInt64".into()))? { Val::Atom(a, _) => a, _ => return Err("array length".into()) };
                    Val::Atom(format!("Rs.H.array ({elem} : UInt8) {len}"), Some("Bytes".into()))
                } else {
                    self.expr(&init.expr, decl_ty.clone())?
                };
                let (a, ty) = match v { Val::Atom(a, ty) => (a, decl_ty.or(ty)), Val::Diverges => return Err("diverging initialiser".into()) };
                let kw = if is_mut { "let mut" } else { "let" };
                match &ty {
                    Some(t) => self.emit(format!("{kw} {name} : {t} := {a}")),
                    None => self.emit(format!("{kw} {name} := {a}")),
                }
                self.vars.insert(name.clone(), (ty, is_mut));
                self.alias.remove(&name);
                Ok(())
            }
            _ => Err("let pattern".into()),
        }
    }

    fn loop_(&mut self, l: &ExprLoop) -> R<Val> {
        if l.label.is_some() || self.loop_state.is_some() {
            return Err("labelled / nested loop".into());
        }
        if self.kind == Kind::Pure {
            return Err("loop in a pure function".into());
        }
        let text = { let b = &l.body; quote::quote!(#b).to_string() };
        if text.split(|c: char| !c.is_alphanumeric() && c != '_').any(|w| w == "self") {
            return Err("loop body that mentions `self`".into());
        }
        let words: HashSet<&str> = text.split(|c: char| !c.is_alphanumeric() && c != '_').collect();
        let mut state: Vec<String> = self.vars.iter().filter(|(k, v)| v.1 && words.contains(k.as_str())).map(|(k, _)| k.clone()).collect();
        state.sort_by_key(|k| text.find(k.as_str()).unwrap_or(usize::MAX));
        for (k, v) in &self.vars {
            if !v.1 && words.contains(k.as_str()) {
                return Err(format!("loop body that uses the local `{k}`"));
            }
        }
        if self.alias.keys().any(|k| words.contains(k.as_str())) {
            return Err("loop body that uses a place alias".into());
        }
        if state.is_empty() {
            return Err("loop without loop-carried variables".into());
        }
        let mut tys = vec![];
        for s in &state {
            tys.push(self.vars.get(s).and_then(|x| x.0.clone()).ok_or(format!("loop-carried `{s}` of unknown type"))?);
        }
        let st_ty = if tys.len() == 1 { tys[0].clone() } else { format!("({})", tys.join(" × ")) };
        let st = Self::state_tuple(&state);
        self.n_loops += 1;
        let base = format!("{}.loop{}_body", self.lean_name, self.n_loops);
        // the body, as its own definition
        let saved_lines = std::mem::take(&mut self.lines);
        let saved_indent = self.indent;
        self.indent = 1;
        self.loop_state = Some(state.clone());
        let r: R<()> = (|| {
            self.emit(format!("let {st} := st"));
            for s in &state {
                self.emit(format!("let mut {s} := {s}"));
            }
            match self.block(&l.body, false)? {
                Val::Diverges => {}
                _ => self.emit(format!("pure (Rs.Step.next {st})")),
            }
            Ok(())
        })();
        self.loop_state = None;
        let body_lines = std::mem::replace(&mut self.lines, saved_lines);
        self.indent = saved_indent;
        r?;
        self.aux.push(format!("def {base} (st : {st_ty}) : Model.M (Rs.Step {st_ty} {}) := do\n{}\n", self.ret_ty, body_lines.join("\n")));
        self.uses_fuel = true;
        let t = self.fresh();
        self.emit(format!("let {t} ← Rs.H.loop {base} fuel {st}"));
        self.emit(format!("match {t} with"));
        match self.kind {
            Kind::Res => self.emit("| Rs.LoopEnd.ret r => return (r, self)".into()),
            _ => return Err("loop in a function without a result".into()),
        }
        self.emit("| Rs.LoopEnd.done s =>".into());
        self.indent += 1;
        if state.len() == 1 {
            self.emit(format!("{} := s", state[0]));
        } else {
            for (k, v) in state.iter().enumerate() {
                let mut proj = String::new();
                for _ in 0..k { proj += ".2"; }
                if k + 1 < state.len() { proj += ".1"; }
                self.emit(format!("{v} := s{proj}"));
            }
        }
        self.indent -= 1;
        Ok(Val::Atom("()".into(), Some("Unit".into())))
    }

    fn expr(&mut self, e: &Expr, expect: Option<String>) -> R<Val> {
        match e {
            Expr::Paren(p) => self.expr(&p.expr, expect),
            Expr::Group(g) => self.expr(&g.expr, expect),
            Expr::Tuple(t) if t.elems.is_empty() => Ok(Val::Atom("()".into(), Some("Unit".into()))),
            Expr::Lit(ExprLit { lit: Lit::Int(i), .. }) => {
                let (b, sfx) = lit_str(i);
                let ty = sfx.as_deref().and_then(prim_ty).map(|s| s.to_string()).or(expect).ok_or("integer literal of unknown type")?;
                Ok(Val::Atom(format!("({b} : {ty})"), Some(ty)))
            }
            Expr::Binary(b) if matches!(b.op, BinOp::Shl(_)) => {
                let ty = expect.ok_or("shift of unknown type")?;
                let l = match self.expr(&b.left, Some(ty.clone()))? { Val::Atom(a, _) => a, _ => return Err("shift".into()) };
                let k = match &*b.right { Expr::Lit(ExprLit { lit: Lit::Int(i), .. }) if i.suffix().is_empty() => lit_str(i).0, _ => return Err("shift by a non-literal".into()) };
                let t = self.bind_opt(format!("Rs.Arith.shl {l} {k}"));
                Ok(Val::Atom(t, Some(ty)))
            }
            Expr::Path(p) => {
                let segs: Vec<String> = p.path.segments.iter().map(|s| s.ident.to_string()).collect();
                if segs.len() == 1 {
                    let v = &segs[0];
                    if v == "self" {
                        if self.kind == Kind::Pure {
                            return Ok(Val::Atom("self".into(), Some(format!("Gen.{}", self.self_ty))));
                        }
                        return Err("`self` as a value in a `&mut self` method".into());
                    }
                    if v == "None" {
                        return Ok(Val::Atom("none".into(), expect));
                    }
                    if let Some((pl, ty)) = self.alias.get(v) {
                        return Ok(Val::Atom(pl.clone(), ty.clone()));
                    }
                    if let Some((ty, _)) = self.vars.get(v) {
                        return Ok(Val::Atom(v.clone(), ty.clone()));
                    }
                    return Err(format!("unknown identifier {v}"));
                }
                let (en, v) = (&segs[segs.len() - 2], &segs[segs.len() - 1]);
                if self.reg.enums.get(en).map(|vs| vs.iter().any(|(n, p)| n == v && !*p)).unwrap_or(false) {
                    return Ok(Val::Atom(format!("Gen.{en}.{v}"), Some(format!("Gen.{en}"))));
                }
                Err(format!("path {}", segs.join("::")))
            }
            Expr::Field(_) => {
                let (pl, ty) = self.place(e).ok_or("field access")?;
                Ok(Val::Atom(pl, ty))
            }
            Expr::Reference(r) => self.expr(&r.expr, expect),
            Expr::Call(c) => {
                let segs: Vec<String> = match &*c.func { Expr::Path(p) => p.path.segments.iter().map(|s| s.ident.to_string()).collect(), _ => return Err("call".into()) };
                let last = segs.last().cloned().unwrap_or_default();
                if segs.len() == 1 && (last == "Ok" || last == "Err" || last == "Some") && c.args.len() == 1 {
                    let parts = expect.as_deref().and_then(t6r2::split_except);
                    let sub = match last.as_str() {
                        "Ok" => parts.map(|(_, t)| t),
                        "Err" => parts.map(|(e, _)| e),
                        _ => expect.as_deref().and_then(split_app).filter(|(h, _)| h == "Option").map(|(_, a)| a),
                    };
                    let a = match self.expr(&c.args[0], sub)? { Val::Atom(a, _) => a, Val::Diverges => return Err("diverging argument".into()) };
                    let ctor = match last.as_str() { "Ok" => "Except.ok", "Err" => "Except.error", _ => "some" };
                    return Ok(Val::Atom(format!("({ctor} {a})"), expect));
                }
                if segs.len() >= 2 && segs[segs.len() - 2] == "mem" && last == "replace" && c.args.len() == 2 {
                    let (pl, ty) = match &c.args[0] {
                        Expr::Path(p) if p.path.segments.len() == 1 => self.alias.get(&path_last(&p.path)).cloned().ok_or("mem::replace on something other than a place alias")?,
                        _ => return Err("mem::replace on something other than a place alias".into()),
                    };
                    let v = match self.expr(&c.args[1], ty.clone())? { Val::Atom(a, _) => a, Val::Diverges => return Err("diverging argument".into()) };
                    let t = self.fresh();
                    self.emit(format!("let {t} := {pl}"));
                    self.assign_place(&pl, &v)?;
                    return Ok(Val::Atom(t, ty));
                }
                Err(format!("call of {}", segs.join("::")))
            }
            Expr::MethodCall(m) => self.method(m),
            Expr::Match(m) => {
                if m.arms.iter().all(|a| is_unit_or_diverges(&a.body)) {
                    self.match_stmt(m, false)
                } else {
                    self.match_value(m, expect)
                }
            }
            Expr::Block(b) => self.block(&b.block, false),
            Expr::Return(r) => {
                let e = r.expr.as_ref().ok_or("return without a value")?;
                let ty = Some(self.ret_ty.clone());
                match self.expr(e, ty)? {
                    Val::Atom(a, _) => self.ret(&a)?,
                    Val::Diverges => {}
                }
                Ok(Val::Diverges)
            }
            Expr::Break(b) => {
                if b.label.is_some() || b.expr.is_some() {
                    return Err("break with label / value".into());
                }
                let st = self.loop_state.clone().ok_or("break outside a loop")?;
                self.emit(format!("return Rs.Step.brk {}", Self::state_tuple(&st)));
                Ok(Val::Diverges)
            }
            Expr::Macro(m) if m.mac.path.is_ident("panic") => {
                self.diverge_panic();
                Ok(Val::Diverges)
            }
            _ => Err(format!("expression form `{}`", quote::quote!(#e).to_string().chars().take(40).collect::<String>())),
        }
    }
}

fn expr_attrs(e: &Expr) -> &[Attribute] {
    match e {
        Expr::If(x) => &x.attrs,
        Expr::Match(x) => &x.attrs,
        Expr::Block(x) => &x.attrs,
        Expr::MethodCall(x) => &x.attrs,
        Expr::Call(x) => &x.attrs,
        Expr::Return(x) => &x.attrs,
        Expr::Loop(x) => &x.attrs,
        _ => &[],
    }
}

fn is_unit_or_diverges(e: &Expr) -> bool {
    match e {
        Expr::Tuple(t) => t.elems.is_empty(),
        Expr::Return(_) | Expr::Break(_) => true,
        Expr::Macro(m) => m.mac.path.is_ident("panic"),
        _ => false,
    }
}

pub fn translate_hfn(reg: &Registry, failed: &HashSet<String>, all: &[&Item], name: &str) -> R<(String, String, usize, usize)> {
    let (ty, m) = name.split_once("::").ok_or("hfn needs Type::method")?;
    let (_im, f) = t6l::find_method(all, ty, m).ok_or("not found")?;
    let lean_name = format!("Gen.{ty}.{m}");
    let recv = f.sig.inputs.iter().find_map(|a| if let FnArg::Receiver(r) = a { Some(r) } else { None }).ok_or("function without `self`")?;
    if f.sig.inputs.len() != 1 {
        return Err("parameters other than `self`".into());
    }
    let tr = Tr::new(reg, failed, Some(ty.to_string()), 0);
    let by_ref = recv.reference.is_some();
    if by_ref && recv.mutability.is_none() {
        return Err("`&self` method".into());
    }
    let (kind, res, ret_ty) = match &f.sig.output {
        ReturnType::Default if by_ref => (Kind::UnitMut, None, "Unit".to_string()),
        ReturnType::Default => return Err("by-value method without a result".into()),
        ReturnType::Type(_, t) => {
            if by_ref {
                // io::Result<T> / ZipResult<T>
                let inner = match &**t {
                    Type::Path(p) if matches!(path_last(&p.path).as_str(), "Result" | "ZipResult") => match &p.path.segments.last().unwrap().arguments {
                        PathArguments::AngleBracketed(a) if a.args.len() == 1 => match &a.args[0] { GenericArgument::Type(t0) => tr.ty(t0)?, _ => return Err("result type".into()) },
                        _ => return Err("result type".into()),
                    },
                    _ => return Err("`&mut self` method that does not return a Result".into()),
                };
                (Kind::Res, Some(inner.clone()), format!("(Except ZErr {inner})"))
            } else {
                let t = tr.ty(t)?;
                (Kind::Pure, Some(t.clone()), t)
            }
        }
    };
    let body_text = { let b = &f.block; quote::quote!(#b).to_string() };
    let mut h = H { reg, failed, all, self_ty: ty.to_string(), lean_name: lean_name.clone(), kind: kind.clone(), ret_ty: ret_ty.clone(), lines: vec![], indent: 1, n: 0, vars: HashMap::new(), alias: HashMap::new(), aux: vec![], uses_fuel: false, n_loops: 0, loop_state: None, body_text };
    if kind != Kind::Pure {
        h.emit("let mut self := self".into());
    }
    match h.block(&f.block, true)? {
        Val::Diverges => {}
        Val::Atom(a, _) => match kind {
            Kind::UnitMut => h.emit("return self".into()),
            _ => h.ret(&a)?,
        },
    }
    let fuel = if h.uses_fuel { " (fuel : Nat)" } else { "" };
    let sig = match kind {
        Kind::Pure => format!("def {lean_name} (self : Gen.{ty}) : Option {ret_ty} := do"),
        Kind::Res => format!("def {lean_name}{fuel} (self : Gen.{ty}) : Model.M ({ret_ty} × Gen.{ty}) := do"),
        Kind::UnitMut => format!("def {lean_name}{fuel} (self : Gen.{ty}) : Model.M Gen.{ty} := do"),
    };
    HFNS.with(|x| x.borrow_mut().insert(name.to_string(), HInfo { res: if kind == Kind::UnitMut { None } else { res }, pure_fn: kind == Kind::Pure, fuel: h.uses_fuel }));
    let mut text = String::new();
    for a in &h.aux {
        text += a;
        text.push('\n');
    }
    text += &sig;
    text.push('\n');
    text += &h.lines.join("\n");
    text.push('\n');
    let hash = tokens_hash(&quote::quote!(#f));
    Ok((text, hash, f.span().start().line, f.span().end().line))
}
