//! Tier T6, helper t6r3: HANDLE mode - the methods of the entry handle `ZipFile` and of the enums it holds
//! (`ZipFileReader`, `CryptoReader`): the `into_inner` chains, `ZipFile::drain_stream`, `Drop for ZipFile`
//! (src/read.rs).  Semantics of the vocabulary: `ZipVerif/Basic/RsH.lean`.
//!
//!   item kind `hfn Type::method`:
//!     `fn f(self) -> T` (no I/O)                        →  Gen.Type.f (self : Gen.Type) : Option T
//!     `fn f(&mut self, …) -> io::Result<T>`/`ZipResult` →  Gen.Type.f [fuel] (self) (…) : Model.M (Except ZErr T × Gen.Type)
//!     `fn f(&mut self)` (`Drop::drop`)                  →  Gen.Type.f [fuel] (self) : Model.M Gen.Type
//!   every exit site of a `&mut self` method is `return (value, self)` with the current `self`.
//!
//! Constructs (each translated by ONE rule, none keyed on a function name):
//!   * `match` in value / statement / tail position (arms are do-sequences; an arm may leave the function);
//!     a scrutinee `&mut place`: an identifier pattern binds an ALIAS of the place; `if let P = e { .. }`;
//!     `P if g => A, P => B` (the same pattern twice in a row) is `| P => if g then A else B`;
//!   * places `self.field`; `place.take()` on an `Option`, `mem::replace(alias, v)`;
//!   * method calls by the TYPE of the receiver: `into_inner` / `finish` of `Crc32Reader` (the layer translation's
//!     function), of the external decoders and decryption layers (`Rs.*.into_inner`), of the translated enums;
//!     `take.read(&mut buf)` on locals (`Rs.H.take_read`); `self.m()` on a translated `&mut self` method;
//!   * `[lit; n]` for a local that is later handed to `.read(&mut _)` (a byte buffer); `a << k` on literals (checked);
//!   * `loop { .. }` with `break` / `return` → `Rs.H.loop` over the `mut` locals the body mentions, fuel = the
//!     generated function's parameter `fuel`;
//!   * `e.kind() == io::ErrorKind::K` → `Rs.H.kindIs`; `panic!` → the panic of the monad.
//! Anything else makes the item `untranslated`.
use super::*;
use std::cell::RefCell;

const EXT_TY: &str = "Rs.ReadExt Gen.ZipCryptoValidator Gen.AesMode";

#[derive(Clone)]
struct HInfo {
    /// Lean type of the `Ok` value; `None` for a unit-returning `&mut self` method
    res: Option<String>,
    pure_fn: bool,
    fuel: bool,
    dev: bool,
}

thread_local! {
    static HFNS: RefCell<HashMap<String, HInfo>> = RefCell::new(HashMap::new());
}

#[derive(Clone, Debug)]
enum Val {
    Atom(String, Option<String>),
    Diverges,
}

#[derive(Clone, PartialEq)]
enum Kind {
    /// by-value `self`, no I/O: the panic monad
    Pure,
    /// `&mut self`, returns a `Result`
    Res,
    /// `&mut self`, returns nothing
    UnitMut,
    /// method of a tuple structure `S<R>(R)` that wraps its reader: the device of the monad is `self.0`; a
    /// `ZipResult<T>` is the outcome of the `M`-computation (`?` = bind, `Err` = `M.throw`)
    Dev,
}

struct H<'a> {
    reg: &'a Registry,
    failed: &'a HashSet<String>,
    all: &'a [&'a Item],
    self_ty: String,
    lean_name: String,
    kind: Kind,
    /// Lean type of the function's result value (`Except ZErr T` in `Res` mode)
    ret_ty: String,
    lines: Vec<String>,
    indent: usize,
    n: usize,
    /// local → (Lean type, declared `mut`)
    vars: HashMap<String, (Option<String>, bool)>,
    /// pattern identifier bound by `match &mut place` → (place text, type)
    alias: HashMap<String, (String, Option<String>)>,
    aux: Vec<String>,
    uses_fuel: bool,
    n_loops: usize,
    /// inside a loop body: the loop-carried variables
    loop_state: Option<Vec<String>>,
    body_text: String,
    /// Dev kind: the `visitor: &mut V` parameter (name), if any
    visitor: Option<String>,
    uses_ext: bool,
    /// locals in scope whose type has a translated `Drop` (innermost last)
    droppable: Vec<String>,
    /// locals bound to an untyped integer literal: substituted at their uses
    lit_vars: HashMap<String, String>,
    /// `mut` binders of the pattern just translated
    mut_binds: RefCell<Vec<String>>,
}

fn variant_payload(h: &H, en: &str, v: &str) -> R<Vec<String>> {
    for it in h.all {
        if let Item::Enum(e) = it {
            if e.ident == en && cfg_on(&e.attrs) {
                for var in e.variants.iter().filter(|x| cfg_on(&x.attrs)) {
                    if var.ident == v {
                        let tr = Tr::new(h.reg, h.failed, Some(en.to_string()), 0);
                        let mut out = vec![];
                        match &var.fields {
                            Fields::Unit => {}
                            Fields::Unnamed(u) => {
                                for f in &u.unnamed {
                                    out.push(tr.ty(&f.ty)?);
                                }
                            }
                            Fields::Named(n) => {
                                for f in &n.named {
                                    out.push(tr.ty(&f.ty)?);
                                }
                            }
                        }
                        return Ok(out);
                    }
                }
            }
        }
    }
    Err(format!("variant {en}::{v}"))
}

/// `(Head A)` → ("Head", "A")
fn split_app(t: &str) -> Option<(String, String)> {
    let inner = t.strip_prefix('(')?.strip_suffix(')')?;
    let i = inner.find(' ')?;
    Some((inner[..i].to_string(), inner[i + 1..].to_string()))
}

fn io_kind(k: &str) -> Option<&'static str> {
    Some(match k {
        "Interrupted" => "interrupted",
        "UnexpectedEof" => "unexpectedEof",
        "Other" => "other",
        "InvalidData" => "invalidData",
        "InvalidInput" => "invalidInput",
        "WriteZero" => "writeZero",
        "BrokenPipe" => "brokenPipe",
        _ => return None,
    })
}

fn strip_ref(e: &Expr) -> &Expr {
    match e {
        Expr::Reference(r) => strip_ref(&r.expr),
        Expr::Paren(p) => strip_ref(&p.expr),
        Expr::Group(g) => strip_ref(&g.expr),
        _ => e,
    }
}

fn pat_key(p: &Pat) -> String {
    // the pattern modulo `ref` / `mut` binding modes
    let s = quote::quote!(#p).to_string();
    s.replace("ref ", "").replace("mut ", "")
}

impl<'a> H<'a> {
    fn emit(&mut self, s: String) {
        self.lines.push(format!("{}{}", "  ".repeat(self.indent), s));
    }
    fn fresh(&mut self) -> String {
        self.n += 1;
        format!("t{}", self.n)
    }
    fn ty(&self, t: &Type) -> R<String> {
        Tr::new(self.reg, self.failed, Some(self.self_ty.clone()), 0).ty(t)
    }
    /// types of the stream module: a newtype `struct N(T)` is its content
    fn ty2(&self, t: &Type) -> R<String> {
        if let Type::Path(p) = t {
            let seg = p.path.segments.last().ok_or("empty path")?;
            let n = seg.ident.to_string();
            if let Some(inner) = self.newtype_of(&n) {
                return Ok(inner);
            }
            if n == "Option" {
                if let PathArguments::AngleBracketed(a) = &seg.arguments {
                    if let Some(GenericArgument::Type(t0)) = a.args.first() {
                        return Ok(format!("(Option {})", self.ty2(t0)?));
                    }
                }
            }
        }
        self.ty(t)
    }
    fn m_mode(&self) -> bool {
        self.kind != Kind::Pure
    }
    /// bind a panic-monad computation
    fn bind_opt(&mut self, rhs: String) -> String {
        let t = self.fresh();
        if self.m_mode() {
            self.emit(format!("let {t} ← Rs.H.lift ({rhs})"));
        } else {
            self.emit(format!("let {t} ← {rhs}"));
        }
        t
    }
    fn diverge_panic(&mut self) {
        if self.m_mode() {
            self.emit("Model.M.panic \"rs2lean: panic\"".into());
        } else {
            self.emit("none".into());
        }
    }

    /// a place expression: `self.field`, an alias, a local
    fn place(&self, e: &Expr) -> Option<(String, Option<String>)> {
        match strip_ref(e) {
            Expr::Field(f) => {
                if let (Expr::Path(p), Member::Named(n)) = (&*f.base, &f.member) {
                    if p.path.is_ident("self") && self.m_mode() {
                        let ty = self.reg.struct_fields.get(&self.self_ty).and_then(|m| m.get(&n.to_string())).cloned();
                        return Some((format!("self.{n}"), ty));
                    }
                }
                None
            }
            Expr::Path(p) if p.path.segments.len() == 1 => {
                let v = path_last(&p.path);
                if let Some((pl, ty)) = self.alias.get(&v) {
                    return Some((pl.clone(), ty.clone()));
                }
                None
            }
            _ => None,
        }
    }
    /// `place := v`
    fn assign_place(&mut self, place: &str, v: &str) -> R<()> {
        if self.loop_state.is_some() {
            return Err("assignment to a place of `self` inside a loop".into());
        }
        if let Some(f) = place.strip_prefix("self.") {
            if !f.contains('.') {
                self.emit(format!("self := {{ self with {f} := {v} }}"));
                return Ok(());
            }
        }
        Err(format!("assignment to the place {place}"))
    }

    fn has_drop(&self, ty: Option<&str>) -> bool {
        match ty.and_then(|t| t.strip_prefix("Gen.")) {
            Some(n) => self.kind == Kind::Dev && HFNS.with(|h| h.borrow().get(&format!("{n}::drop")).map(|i| i.res.is_none() && !i.pure_fn).unwrap_or(false)) && !self.failed.contains(&format!("{n}::drop")),
            None => false,
        }
    }
    /// `Drop::drop` of the droppable locals from index `from` on, innermost first
    fn drop_from(&mut self, from: usize) {
        let names: Vec<String> = self.droppable[from..].iter().rev().cloned().collect();
        for n in names {
            let ty = self.vars.get(&n).and_then(|x| x.0.clone()).unwrap_or_default();
            let tn = ty.strip_prefix("Gen.").unwrap_or("").to_string();
            let fuel = if HFNS.with(|h| h.borrow().get(&format!("{tn}::drop")).map(|i| i.fuel).unwrap_or(false)) { self.uses_fuel = true; " fuel" } else { "" };
            self.emit(format!("let _ ← Gen.{tn}.drop{fuel} {n}"));
        }
    }
    /// `r?` on a `Result` VALUE in Dev kind: the locals in scope are dropped before the error is returned
    fn try_value(&mut self, r: &str, ty: Option<String>) -> R<Val> {
        let okty = ty.as_deref().and_then(t6r2::split_except).map(|(_, t)| t);
        let t = self.fresh();
        match &okty {
            Some(o) => self.emit(format!("let {t} : {o} ← match {r} with")),
            None => self.emit(format!("let {t} ← match {r} with")),
        }
        self.indent += 1;
        self.emit("| (Except.error e) =>".into());
        self.indent += 1;
        self.drop_from(0);
        self.emit("Model.M.throw e".into());
        self.indent -= 1;
        self.emit("| (Except.ok v) =>".into());
        self.indent += 1;
        self.emit("pure v".into());
        self.indent -= 2;
        Ok(Val::Atom(t, okty))
    }
    /// is `e` the device `self.0` (by `&mut`)?
    fn is_dev(&self, e: &Expr) -> bool {
        if self.kind != Kind::Dev {
            return false;
        }
        match strip_ref(e) {
            Expr::Field(f) => matches!(&*f.base, Expr::Path(p) if p.path.is_ident("self")) && matches!(&f.member, Member::Unnamed(i) if i.index == 0),
            _ => false,
        }
    }
    /// an expression that runs in the monad and whose `ZipResult` is the monad's outcome: its value when it succeeds
    fn in_monad(&mut self, e: &Expr) -> R<Option<Val>> {
        if self.kind != Kind::Dev {
            return Ok(None);
        }
        match e {
            Expr::Paren(p) => self.in_monad(&p.expr),
            Expr::MethodCall(m) => {
                let name = m.method.to_string();
                // `self.0.read_uNN::<LittleEndian>()`
                if self.is_dev(&m.receiver) && m.args.is_empty() {
                    let op = match name.as_str() { "read_u16" => Some(("Model.M.readU16", "UInt16")), "read_u32" => Some(("Model.M.readU32", "UInt32")), "read_u64" => Some(("Model.M.readU64", "UInt64")), _ => None };
                    if let Some((op, ty)) = op {
                        let le = matches!(&m.turbofish, Some(tf) if tf.args.len() == 1 && matches!(&tf.args[0], GenericArgument::Type(Type::Path(p)) if path_last(&p.path) == "LittleEndian"));
                        if !le {
                            return Err("read without ::<LittleEndian>".into());
                        }
                        let t = self.fresh();
                        self.emit(format!("let {t} : {ty} ← {op}"));
                        return Ok(Some(Val::Atom(t, Some(ty.into()))));
                    }
                }
                // `res.map(F)`: `F` a newtype constructor (identity on the translation) or `Some`
                if name == "map" && m.args.len() == 1 {
                    if let Expr::Path(fp) = &m.args[0] {
                        let f = path_last(&fp.path);
                        if let Some(Val::Atom(a, ty)) = self.in_monad(&m.receiver)? {
                            if f == "Some" {
                                return Ok(Some(Val::Atom(format!("(some {a})"), ty.map(|t| format!("(Option {t})")))));
                            }
                            if self.newtype_of(&f).is_some() {
                                return Ok(Some(Val::Atom(a, ty)));
                            }
                            return Err(format!("map({f})"));
                        }
                    }
                    return Ok(None);
                }
                // `self.m()` on a translated method of the same device structure
                if matches!(&*m.receiver, Expr::Path(p) if p.path.is_ident("self")) && m.args.is_empty() {
                    let key = format!("{}::{}", self.self_ty, name);
                    if let Some(hi) = HFNS.with(|h| h.borrow().get(&key).cloned()) {
                        if hi.dev && !self.failed.contains(&key) {
                            let t = self.fresh();
                            self.emit(format!("let {t} ← Gen.{}.{name}", self.self_ty));
                            return Ok(Some(Val::Atom(t, hi.res)));
                        }
                    }
                }
                Ok(None)
            }
            // a translated READ-mode function called with the device
            Expr::Call(c) => {
                let p = match &*c.func { Expr::Path(p) => p, _ => return Ok(None) };
                let name = path_last(&p.path);
                let fi = match self.reg.fns.get(&name) { Some(fi) if fi.mode == Mode::R => fi.clone(), _ => return Ok(None) };
                if self.failed.contains(&name) {
                    return Err(format!("calls the untranslated {name}"));
                }
                if c.args.is_empty() || !self.is_dev(&c.args[0]) || !matches!(&c.args[0], Expr::Reference(r) if r.mutability.is_some()) {
                    return Err(format!("{name} called with something other than the device"));
                }
                let mut args = vec![];
                for a in c.args.iter().skip(1) {
                    args.push(self.arg(a)?);
                }
                let lean = format!("Gen.{name}");
                let ext = if t6r::is_ext_fn(&lean) { self.uses_ext = true; " ext" } else { "" };
                let a = if args.is_empty() { String::new() } else { format!(" {}", args.join(" ")) };
                let t = self.fresh();
                match &fi.ret {
                    Some(ty) => self.emit(format!("let {t} : {ty} ← {lean}{ext}{a}")),
                    None => self.emit(format!("let {t} ← {lean}{ext}{a}")),
                }
                Ok(Some(Val::Atom(t, fi.ret.clone())))
            }
            _ => Ok(None),
        }
    }
    /// an argument of a call: untyped integer literals (and locals bound to one) are passed as bare numerals, typed by
    /// the callee's signature
    fn arg(&mut self, a: &Expr) -> R<String> {
        if let Expr::Lit(ExprLit { lit: Lit::Int(i), .. }) = a {
            if i.suffix().is_empty() {
                return Ok(lit_str(i).0);
            }
        }
        if let (Expr::Path(_), Some(v)) = (a, path_ident(a)) {
            if let Some(l) = self.lit_vars.get(&v) {
                return Ok(l.clone());
            }
        }
        match self.expr(a, None)? {
            Val::Atom(x, _) => Ok(x),
            Val::Diverges => Err("diverging argument".into()),
        }
    }
    /// a tuple structure `struct N(T)` of the current file: the Lean type of `T`
    fn newtype_of(&self, n: &str) -> Option<String> {
        for it in self.all {
            if let Item::Struct(st) = it {
                if st.ident == n && st.generics.params.is_empty() {
                    if let Fields::Unnamed(u) = &st.fields {
                        if u.unnamed.len() == 1 {
                            return Tr::new(self.reg, self.failed, None, 0).ty(&u.unnamed[0].ty).ok();
                        }
                    }
                }
            }
        }
        None
    }

    fn pat(&self, p: &Pat, sty: Option<&str>, binds: &mut Vec<(String, Option<String>)>) -> R<String> {
        match p {
            Pat::Wild(_) => Ok("_".into()),
            Pat::Lit(PatLit { lit: Lit::Int(i), .. }) => Ok(lit_str(i).0),
            Pat::Ident(id) => {
                let n = id.ident.to_string();
                if n == "None" {
                    return Ok("none".into());
                }
                if id.subpat.is_some() {
                    return Err("`@` pattern".into());
                }
                binds.push((n.clone(), sty.map(|s| s.to_string())));
                if id.mutability.is_some() {
                    self.mut_binds.borrow_mut().push(n.clone());
                }
                Ok(n)
            }
            Pat::Tuple(t) if t.elems.is_empty() => Ok("()".into()),
            Pat::Path(pp) => {
                let segs: Vec<String> = pp.path.segments.iter().map(|s| s.ident.to_string()).collect();
                if segs.len() == 1 && segs[0] == "None" {
                    return Ok("none".into());
                }
                if segs.len() >= 2 {
                    let (en, v) = (&segs[segs.len() - 2], &segs[segs.len() - 1]);
                    if self.reg.enums.get(en).map(|vs| vs.iter().any(|(n, p)| n == v && !*p)).unwrap_or(false) {
                        return Ok(format!("Gen.{en}.{v}"));
                    }
                }
                Err("path pattern".into())
            }
            Pat::TupleStruct(ts) => {
                let segs: Vec<String> = ts.path.segments.iter().map(|s| s.ident.to_string()).collect();
                let last = segs.last().cloned().unwrap_or_default();
                let one = |h: &Self, sub: Option<String>, binds: &mut Vec<(String, Option<String>)>| -> R<String> {
                    if ts.elems.len() != 1 {
                        return Err("constructor pattern arity".into());
                    }
                    h.pat(&ts.elems[0], sub.as_deref(), binds)
                };
                if segs.len() == 1 {
                    match last.as_str() {
                        "Some" => {
                            let sub = sty.and_then(split_app).filter(|(h, _)| h == "Option").map(|(_, a)| a);
                            return Ok(format!("(some {})", one(self, sub, binds)?));
                        }
                        "Ok" | "Err" => {
                            let parts = sty.and_then(t6r2::split_except);
                            let sub = parts.map(|(e, t)| if last == "Ok" { t } else { e });
                            let c = if last == "Ok" { "Except.ok" } else { "Except.error" };
                            return Ok(format!("({c} {})", one(self, sub, binds)?));
                        }
                        _ => return Err(format!("pattern {last}")),
                    }
                }
                let en = &segs[segs.len() - 2];
                if en == "Cow" && (last == "Owned" || last == "Borrowed") {
                    let sub = sty.and_then(split_app).filter(|(h, _)| h == "Rs.Cow").map(|(_, a)| a);
                    return Ok(format!("(Rs.Cow.{last} {})", one(self, sub, binds)?));
                }
                if self.reg.enums.contains_key(en) {
                    let tys = variant_payload(self, en, &last)?;
                    if tys.len() != ts.elems.len() {
                        return Err("variant pattern arity".into());
                    }
                    let mut ps = vec![];
                    for (q, t) in ts.elems.iter().zip(tys.iter()) {
                        ps.push(self.pat(q, Some(t), binds)?);
                    }
                    return Ok(format!("(Gen.{en}.{last} {})", ps.join(" ")));
                }
                Err(format!("pattern {en}::{last}"))
            }
            Pat::Struct(ps) => {
                let segs: Vec<String> = ps.path.segments.iter().map(|s| s.ident.to_string()).collect();
                if segs.len() < 2 {
                    return Err("struct pattern".into());
                }
                let (en, v) = (&segs[segs.len() - 2], &segs[segs.len() - 1]);
                let names = t6r::variant_fields_of(en, v).ok_or("struct pattern of an unknown variant")?;
                let tys = variant_payload(self, en, v)?;
                let mut given: HashMap<String, String> = HashMap::new();
                for f in &ps.fields {
                    let n = match &f.member { Member::Named(n) => n.to_string(), _ => return Err("unnamed pattern field".into()) };
                    let idx = names.iter().position(|x| *x == n).ok_or(format!("pattern field {n}"))?;
                    given.insert(n, self.pat(&f.pat, Some(&tys[idx]), binds)?);
                }
                if ps.rest.is_none() && given.len() != names.len() {
                    return Err("struct pattern without `..` that omits fields".into());
                }
                let args: Vec<String> = names.iter().map(|f| given.get(f).cloned().unwrap_or_else(|| "_".into())).collect();
                Ok(format!("(Gen.{en}.{v} {})", args.join(" ")))
            }
            Pat::Reference(r) => self.pat(&r.pat, sty, binds),
            _ => Err("pattern form".into()),
        }
    }

    fn guard(&mut self, g: &Expr) -> R<String> {
        if let Expr::Binary(b) = g {
            if matches!(b.op, BinOp::Eq(_)) {
                if let (Expr::MethodCall(m), Expr::Path(p)) = (&*b.left, &*b.right) {
                    let segs: Vec<String> = p.path.segments.iter().map(|s| s.ident.to_string()).collect();
                    if m.method == "kind" && m.args.is_empty() && segs.len() >= 2 && segs[segs.len() - 2] == "ErrorKind" {
                        if let Some(v) = path_ident(&m.receiver) {
                            if self.vars.get(&v).and_then(|x| x.0.clone()).as_deref() == Some("ZErr") {
                                let k = io_kind(&segs[segs.len() - 1]).ok_or("error kind")?;
                                return Ok(format!("(Rs.H.kindIs {v} ZipVerif.IoKind.{k})"));
                            }
                        }
                    }
                }
            }
        }
        Err("match guard".into())
    }

    /// the arms of a `match`; `fin` says what to do with the value of an arm
    fn arms(&mut self, m_arms: &[&Arm], sty: Option<&str>, alias_place: Option<(String, Option<String>)>, fin: &mut dyn FnMut(&mut Self, Val) -> R<()>) -> R<()> {
        let base = self.indent;
        let mut i = 0;
        while i < m_arms.len() {
            let a = m_arms[i];
            let mut binds = vec![];
            // an identifier pattern under `match &mut place`: an alias of the place
            let mut alias_name = None;
            let p = if let (Pat::Ident(id), Some(_)) = (&a.pat, &alias_place) {
                if id.ident != "None" && id.subpat.is_none() {
                    alias_name = Some(id.ident.to_string());
                    "_".to_string()
                } else {
                    self.pat(&a.pat, sty, &mut binds)?
                }
            } else {
                self.pat(&a.pat, sty, &mut binds)?
            };
            self.indent = base;
            self.emit(format!("| {p} =>"));
            self.indent = base + 1;
            let saved_vars = self.vars.clone();
            let saved_alias = self.alias.clone();
            let saved_drop = self.droppable.len();
            let muts: Vec<String> = std::mem::take(&mut *self.mut_binds.borrow_mut());
            for (n, t) in &binds {
                let is_mut = muts.contains(n);
                if is_mut {
                    self.emit(format!("let mut {n} := {n}"));
                }
                self.vars.insert(n.clone(), (t.clone(), is_mut));
                self.alias.remove(n);
                if self.has_drop(t.as_deref()) {
                    self.droppable.push(n.clone());
                }
            }
            if let (Some(n), Some(pl)) = (&alias_name, &alias_place) {
                self.alias.insert(n.clone(), pl.clone());
                self.vars.remove(n);
            }
            let r: R<usize> = (|| {
                if let Some((_, g)) = &a.guard {
                    let next = m_arms.get(i + 1).ok_or("guarded last arm")?;
                    if next.guard.is_some() || pat_key(&next.pat) != pat_key(&a.pat) {
                        return Err("guard whose fall-through is not the same pattern".into());
                    }
                    let c = self.guard(g)?;
                    self.emit(format!("if {c} then"));
                    self.indent = base + 2;
                    let v = self.expr(&a.body, None)?;
                    fin(self, v)?;
                    self.indent = base + 1;
                    self.emit("else".into());
                    self.indent = base + 2;
                    let v = self.expr(&next.body, None)?;
                    fin(self, v)?;
                    Ok(2)
                } else {
                    let v = self.expr(&a.body, None)?;
                    // the binders of the arm go out of scope
                    if !matches!(v, Val::Diverges) {
                        self.drop_from(saved_drop);
                    }
                    fin(self, v)?;
                    Ok(1)
                }
            })();
            self.droppable.truncate(saved_drop);
            self.vars = saved_vars;
            self.alias = saved_alias;
            self.indent = base;
            i += r?;
        }
        Ok(())
    }

    fn scrutinee(&mut self, e: &Expr) -> R<(String, Option<String>, Option<(String, Option<String>)>)> {
        // `match &mut place`: arms may alias the place
        if let Expr::Reference(r) = e {
            if r.mutability.is_some() {
                if let Some((pl, ty)) = self.place(&r.expr) {
                    return Ok((pl.clone(), ty.clone(), Some((pl, ty))));
                }
            }
        }
        match self.expr(e, None)? {
            Val::Atom(t, ty) => Ok((t, ty, None)),
            Val::Diverges => Err("diverging scrutinee".into()),
        }
    }

    /// `match` whose value is wanted
    fn match_value(&mut self, m: &ExprMatch, expect: Option<String>) -> R<Val> {
        let arms: Vec<&Arm> = m.arms.iter().filter(|a| cfg_on(&a.attrs)).collect();
        let (scrut, sty, al) = self.scrutinee(&m.expr)?;
        let t = self.fresh();
        let mark = self.lines.len();
        self.emit(String::new()); // placeholder for the header (its type is known after the arms)
        let base = self.indent;
        self.indent = base + 1;
        let mut vty: Option<String> = expect.clone();
        let mut all_div = true;
        let r = self.arms(&arms, sty.as_deref(), al, &mut |h: &mut Self, v: Val| {
            if let Val::Atom(a, ty) = v {
                all_div = false;
                if vty.is_none() {
                    vty = ty;
                }
                h.emit(format!("pure {a}"));
            }
            Ok(())
        });
        self.indent = base;
        r?;
        let pad = "  ".repeat(base);
        self.lines[mark] = match &vty {
            Some(ty) => format!("{pad}let {t} : {ty} ← match {scrut} with"),
            None => format!("{pad}let {t} ← match {scrut} with"),
        };
        if all_div {
            return Ok(Val::Diverges);
        }
        Ok(Val::Atom(t, vty))
    }

    /// `match` as a statement (value `()`), or in tail position of the function (`tail`)
    fn match_stmt(&mut self, m: &ExprMatch, tail: bool) -> R<Val> {
        let arms: Vec<&Arm> = m.arms.iter().filter(|a| cfg_on(&a.attrs)).collect();
        let (scrut, sty, al) = self.scrutinee(&m.expr)?;
        self.emit(format!("match {scrut} with"));
        let mut all_div = true;
        self.arms(&arms, sty.as_deref(), al, &mut |h: &mut Self, v: Val| {
            match v {
                Val::Atom(a, _) => {
                    all_div = false;
                    if tail {
                        h.ret(&a)?;
                    } else {
                        h.emit("pure ()".into());
                    }
                }
                Val::Diverges => {}
            }
            Ok(())
        })?;
        if tail || all_div {
            Ok(Val::Diverges)
        } else {
            Ok(Val::Atom("()".into(), Some("Unit".into())))
        }
    }

    /// leave the function with the value `v`
    fn ret(&mut self, v: &str) -> R<()> {
        if self.loop_state.is_some() {
            if self.kind == Kind::Dev {
                return Err("return from inside a loop of a device method".into());
            }
            self.emit(format!("return Rs.Step.ret {v}"));
            return Ok(());
        }
        match self.kind {
            Kind::Pure => self.emit(format!("pure {v}")),
            Kind::Res => self.emit(format!("return ({v}, self)")),
            Kind::UnitMut => self.emit("return self".into()),
            Kind::Dev => match &self.visitor {
                Some(vis) => self.emit(format!("return ({v}, {vis})")),
                None => self.emit(format!("return {v}")),
            },
        }
        Ok(())
    }

    fn state_tuple(st: &[String]) -> String {
        if st.len() == 1 { st[0].clone() } else { format!("({})", st.join(", ")) }
    }

    fn method(&mut self, m: &ExprMethodCall) -> R<Val> {
        let name = m.method.to_string();
        if self.kind == Kind::Dev {
            if let (Expr::Path(_), Some(rv)) = (&*m.receiver, path_ident(&m.receiver)) {
                // the visitor's callbacks (a `ZipStreamVisitor` parameter): `Rs.Visitor`
                if Some(&rv) == self.visitor.as_ref() && m.args.len() == 1 {
                    let a = match &m.args[0] { Expr::Reference(r) => r, _ => return Err("visitor argument".into()) };
                    let av = path_ident(&a.expr).filter(|_| matches!(&*a.expr, Expr::Path(_))).ok_or("visitor argument")?;
                    let aty = self.vars.get(&av).and_then(|x| x.0.clone()).unwrap_or_default();
                    if name == "visit_file" && a.mutability.is_some() && aty == "Gen.ZipFile" && self.vars.get(&av).map(|x| x.1).unwrap_or(false) {
                        let (t1, t2, t3) = (self.fresh(), self.fresh(), self.fresh());
                        self.emit(format!("let ({t1}, {t2}, {t3}) ← vis.visit_file {rv} {av}"));
                        self.emit(format!("{rv} := {t2}"));
                        self.emit(format!("{av} := {t3}"));
                        return Ok(Val::Atom(t1, Some("(Except ZErr Unit)".into())));
                    }
                    if name == "visit_additional_metadata" && a.mutability.is_none() && aty == "Gen.ZipFileData" {
                        let (t1, t2) = (self.fresh(), self.fresh());
                        self.emit(format!("let ({t1}, {t2}) ← vis.visit_additional_metadata {rv} {av}"));
                        self.emit(format!("{rv} := {t2}"));
                        return Ok(Val::Atom(t1, Some("(Except ZErr Unit)".into())));
                    }
                    return Err(format!("visitor callback {name}"));
                }
                // a translated `&mut self` method of a local handle
                if let Some((Some(ty), true)) = self.vars.get(&rv).cloned() {
                    if let Some(tn) = ty.strip_prefix("Gen.") {
                        let key = format!("{tn}::{name}");
                        if let Some(hi) = HFNS.with(|h| h.borrow().get(&key).cloned()) {
                            if !hi.pure_fn && !hi.dev && m.args.is_empty() && !self.failed.contains(&key) {
                                let fuel = if hi.fuel { self.uses_fuel = true; " fuel" } else { "" };
                                if let Some(res) = hi.res {
                                    let (t1, t2) = (self.fresh(), self.fresh());
                                    self.emit(format!("let ({t1}, {t2}) ← Gen.{tn}.{name}{fuel} {rv}"));
                                    self.emit(format!("{rv} := {t2}"));
                                    return Ok(Val::Atom(t1, Some(format!("(Except ZErr {res})"))));
                                }
                            }
                        }
                    }
                }
            }
        }
        // `self.f()` on a translated `&mut self` method
        if matches!(&*m.receiver, Expr::Path(p) if p.path.is_ident("self")) && self.m_mode() && self.kind != Kind::Dev {
            let key = format!("{}::{}", self.self_ty, name);
            let hi = HFNS.with(|h| h.borrow().get(&key).cloned()).ok_or(format!("call of {key}, which is not a translated handle method"))?;
            if self.failed.contains(&key) || hi.pure_fn || !m.args.is_empty() {
                return Err(format!("call of {key}"));
            }
            if self.loop_state.is_some() {
                return Err("method call on `self` inside a loop".into());
            }
            let fuel = if hi.fuel { self.uses_fuel = true; " fuel" } else { "" };
            return match hi.res {
                Some(res) => {
                    let (t1, t2) = (self.fresh(), self.fresh());
                    self.emit(format!("let ({t1}, {t2}) ← Gen.{}.{name}{fuel} self", self.self_ty));
                    self.emit(format!("self := {t2}"));
                    Ok(Val::Atom(t1, Some(format!("(Except ZErr {res})"))))
                }
                None => {
                    let t1 = self.fresh();
                    self.emit(format!("let {t1} ← Gen.{}.{name}{fuel} self", self.self_ty));
                    self.emit(format!("self := {t1}"));
                    Ok(Val::Atom("()".into(), Some("Unit".into())))
                }
            };
        }
        // `place.take()` on an `Option`
        if name == "take" && m.args.is_empty() {
            if let Some((pl, Some(ty))) = self.place(&m.receiver) {
                if ty.starts_with("(Option ") {
                    let t = self.fresh();
                    self.emit(format!("let {t} := {pl}"));
                    self.assign_place(&pl, "none")?;
                    return Ok(Val::Atom(t, Some(ty)));
                }
            }
            return Err("take() on something other than an Option place".into());
        }
        // `take.read(&mut buf)` on locals
        if name == "read" && m.args.len() == 1 {
            let r = path_ident(&m.receiver).filter(|_| matches!(&*m.receiver, Expr::Path(_)));
            let b = match &m.args[0] { Expr::Reference(x) if x.mutability.is_some() && matches!(&*x.expr, Expr::Path(_)) => path_ident(&x.expr), _ => None };
            if let (Some(r), Some(b)) = (r, b) {
                let rt = self.vars.get(&r).cloned();
                let bt = self.vars.get(&b).cloned();
                if let (Some((Some(rt), true)), Some((Some(bt), true))) = (rt, bt) {
                    if rt == "Rs.Take" && bt == "Bytes" && self.m_mode() {
                        let (t1, t2, t3) = (self.fresh(), self.fresh(), self.fresh());
                        self.emit(format!("let ({t1}, {t2}, {t3}) ← Rs.H.take_read {r} {b}"));
                        self.emit(format!("{r} := {t2}"));
                        self.emit(format!("{b} := {t3}"));
                        return Ok(Val::Atom(t1, Some("(Except ZErr UInt64)".into())));
                    }
                }
            }
            return Err("read() on something other than a local `Take` with a local byte buffer".into());
        }
        // by the type of the receiver
        if (name == "into_inner" || name == "finish") && m.args.is_empty() {
            let (recv, rty) = match self.expr(&m.receiver, None)? {
                Val::Atom(t, Some(ty)) => (t, ty),
                Val::Atom(_, None) => return Err(format!(".{name}() on a receiver of unknown type")),
                Val::Diverges => return Err("diverging receiver".into()),
            };
            if let Some((head, arg)) = split_app(&rty) {
                let pure_tab: &[(&str, &str, &str)] = &[
                    ("Rs.DeflateDecoder", "into_inner", "Rs.DeflateDecoder.into_inner"),
                    ("Rs.BzDecoder", "into_inner", "Rs.BzDecoder.into_inner"),
                    ("Rs.ZstdDecoder", "finish", "Rs.ZstdDecoder.finish"),
                    ("Rs.BufReader", "into_inner", "Rs.BufReader.into_inner"),
                ];
                for (h, mm, f) in pure_tab {
                    if head == *h && name == *mm {
                        return Ok(Val::Atom(format!("({f} {recv})"), Some(arg)));
                    }
                }
                if (head == "Rs.ZcValid" || head == "Rs.AesValid") && name == "into_inner" {
                    return Ok(Val::Atom(format!("({head}.into_inner {recv})"), Some("Rs.Take".into())));
                }
                if head == "Gen.Crc32Reader" && name == "into_inner" && self.reg.methods.contains_key("Crc32Reader::into_inner") {
                    let t = self.bind_opt(format!("Gen.Crc32Reader.into_inner {recv}"));
                    return Ok(Val::Atom(t, Some(arg)));
                }
            }
            if let Some(en) = rty.strip_prefix("Gen.") {
                let key = format!("{en}::{name}");
                if let Some(hi) = HFNS.with(|h| h.borrow().get(&key).cloned()) {
                    if hi.pure_fn && !self.failed.contains(&key) {
                        let t = self.bind_opt(format!("Gen.{en}.{name} {recv}"));
                        return Ok(Val::Atom(t, hi.res));
                    }
                }
            }
            return Err(format!(".{name}() on a receiver of type {rty}"));
        }
        Err(format!("method .{name}()"))
    }

    fn block(&mut self, b: &Block, tail: bool) -> R<Val> {
        let saved_vars = self.vars.clone();
        let n = b.stmts.len();
        let mut last = Val::Atom("()".into(), Some("Unit".into()));
        for (i, s) in b.stmts.iter().enumerate() {
            let is_last = i + 1 == n;
            match s {
                Stmt::Local(l) => {
                    if !cfg_on(&l.attrs) { continue; }
                    self.local(l)?;
                    last = Val::Atom("()".into(), Some("Unit".into()));
                }
                Stmt::Expr(e, semi) => {
                    if !cfg_on(expr_attrs(e)) { continue; }
                    let v = if is_last && semi.is_none() { self.expr_pos(e, tail)? } else { self.expr_pos(e, false)? };
                    match v {
                        Val::Diverges => { last = Val::Diverges; break; }
                        v => last = if semi.is_some() { Val::Atom("()".into(), Some("Unit".into())) } else { v },
                    }
                }
                _ => return Err("item / macro statement".into()),
            }
        }
        // locals of the block go out of scope (none of the supported types has a `Drop` the translation observes)
        let keep: HashMap<String, (Option<String>, bool)> = self.vars.iter().filter(|(k, _)| saved_vars.contains_key(*k)).map(|(k, v)| (k.clone(), v.clone())).collect();
        self.vars = keep;
        Ok(last)
    }

    /// an expression in statement / tail position
    fn expr_pos(&mut self, e: &Expr, tail: bool) -> R<Val> {
        match e {
            Expr::Match(m) if tail => self.match_stmt(m, true),
            Expr::Match(m) if m.arms.iter().all(|a| is_unit_or_diverges(&a.body)) => self.match_stmt(m, false),
            Expr::If(i) => {
                if let Expr::Let(l) = &*i.cond {
                    if i.else_branch.is_some() {
                        return Err("if let with else".into());
                    }
                    let (pat, scrut, body) = (&*l.pat, &*l.expr, &i.then_branch);
                    let m: ExprMatch = syn::parse_quote!(match #scrut { #pat => #body, _ => () });
                    return self.match_stmt(&m, false);
                }
                if let (true, Some((_, els))) = (tail, &i.else_branch) {
                    let c = match self.expr(&i.cond, Some("Bool".into()))? { Val::Atom(a, _) => a, _ => return Err("condition".into()) };
                    self.emit(format!("if {c} then"));
                    self.indent += 1;
                    self.block(&i.then_branch, true)?;
                    self.indent -= 1;
                    self.emit("else".into());
                    self.indent += 1;
                    match &**els { Expr::Block(b) => { self.block(&b.block, true)?; } _ => return Err("else if".into()) }
                    self.indent -= 1;
                    return Ok(Val::Diverges);
                }
                Err("if".into())
            }
            Expr::Loop(l) => self.loop_(&l.body, l.label.is_some()),
            // `while let P = e { body }` = `loop { match e { P => body, _ => break } }`
            Expr::While(w) => {
                if let Expr::Let(l) = &*w.cond {
                    let (pat, scrut, body) = (&*l.pat, &*l.expr, &w.body);
                    let b: Block = syn::parse_quote!({ match #scrut { #pat => #body, _ => break } });
                    return self.loop_(&b, w.label.is_some());
                }
                Err("while".into())
            }
            Expr::Call(c) if tail && self.kind == Kind::Dev && matches!(&*c.func, Expr::Path(p) if p.path.is_ident("Ok")) && c.args.len() == 1 => {
                let a = self.arg_typed(&c.args[0])?;
                self.ret(&a)?;
                Ok(Val::Diverges)
            }
            _ if tail && self.kind == Kind::Dev => {
                match self.in_monad(e)? {
                    Some(Val::Atom(a, _)) => {
                        self.ret(&a)?;
                        Ok(Val::Diverges)
                    }
                    _ => Err("tail expression of a device method".into()),
                }
            }
            _ => {
                let v = self.expr(e, None)?;
                if tail {
                    if let Val::Atom(a, _) = &v {
                        self.ret(a)?;
                        return Ok(Val::Diverges);
                    }
                }
                Ok(v)
            }
        }
    }

    /// the argument of `Ok(..)` in result position
    fn arg_typed(&mut self, a: &Expr) -> R<String> {
        if let Expr::Path(p) = a {
            if p.path.is_ident("None") {
                return Ok("none".into());
            }
        }
        self.arg(a)
    }

    fn local(&mut self, l: &Local) -> R<()> {
        let init = l.init.as_ref().ok_or("let without initialiser")?;
        if let (Pat::Ident(id), Expr::Lit(ExprLit { lit: Lit::Int(i), .. })) = (&l.pat, &*init.expr) {
            if i.suffix().is_empty() && id.mutability.is_none() && id.by_ref.is_none() {
                // an untyped literal takes its type from its uses: substituted there
                self.lit_vars.insert(id.ident.to_string(), lit_str(i).0);
                return Ok(());
            }
        }
        if init.diverge.is_some() {
            return Err("let-else".into());
        }
        let (pat, decl_ty) = match &l.pat {
            Pat::Type(pt) => (&*pt.pat, Some(self.ty(&pt.ty)?)),
            p => (p, None),
        };
        match pat {
            Pat::Wild(_) => {
                match self.expr(&init.expr, None)? {
                    Val::Atom(a, _) => self.emit(format!("let _ := {a}")),
                    Val::Diverges => return Err("diverging initialiser".into()),
                }
                Ok(())
            }
            Pat::Ident(id) if id.by_ref.is_none() && id.subpat.is_none() => {
                let name = id.ident.to_string();
                let is_mut = id.mutability.is_some();
                // `[lit; n]` for a buffer that is later handed to `.read(&mut name)`
                let v = if let Expr::Repeat(rp) = &*init.expr {
                    if !self.body_text.contains(&format!("read (& mut {name})")) {
                        return Err("array whose element type is not evident".into());
                    }
                    let elem = match &*rp.expr { Expr::Lit(ExprLit { lit: Lit::Int(i), .. }) if i.suffix().is_empty() => lit_str(i).0, _ => return Err("array element".into()) };
                    let len = match self.expr(&rp.len, Some("UInt64".into()))? { Val::Atom(a, _) => a, _ => return Err("array length".into()) };
                    Val::Atom(format!("Rs.H.array ({elem} : UInt8) {len}"), Some("Bytes".into()))
                } else {
                    self.expr(&init.expr, decl_ty.clone())?
                };
                let (a, ty) = match v { Val::Atom(a, ty) => (a, decl_ty.or(ty)), Val::Diverges => return Err("diverging initialiser".into()) };
                let kw = if is_mut { "let mut" } else { "let" };
                match &ty {
                    Some(t) => self.emit(format!("{kw} {name} : {t} := {a}")),
                    None => self.emit(format!("{kw} {name} := {a}")),
                }
                self.vars.insert(name.clone(), (ty, is_mut));
                self.alias.remove(&name);
                Ok(())
            }
            _ => Err("let pattern".into()),
        }
    }

    fn loop_(&mut self, body: &Block, labelled: bool) -> R<Val> {
        if labelled || self.loop_state.is_some() {
            return Err("labelled / nested loop".into());
        }
        if self.kind == Kind::Pure {
            return Err("loop in a pure function".into());
        }
        if !self.droppable.is_empty() {
            return Err("loop while a handle is in scope".into());
        }
        let dev = self.kind == Kind::Dev;
        if dev && self.visitor.is_none() {
            return Err("loop in a device method without a visitor".into());
        }
        let text = quote::quote!(#body).to_string();
        let words: HashSet<&str> = text.split(|c: char| !c.is_alphanumeric() && c != '_').collect();
        if !dev && words.contains("self") {
            return Err("loop body that mentions `self`".into());
        }
        let mut state: Vec<String> = self.vars.iter().filter(|(k, v)| v.1 && words.contains(k.as_str())).map(|(k, _)| k.clone()).collect();
        state.sort_by_key(|k| text.find(k.as_str()).unwrap_or(usize::MAX));
        for (k, v) in &self.vars {
            if !v.1 && words.contains(k.as_str()) {
                return Err(format!("loop body that uses the local `{k}`"));
            }
        }
        if self.alias.keys().any(|k| words.contains(k.as_str())) {
            return Err("loop body that uses a place alias".into());
        }
        if state.is_empty() {
            return Err("loop without loop-carried variables".into());
        }
        let mut tys = vec![];
        for s in &state {
            tys.push(self.vars.get(s).and_then(|x| x.0.clone()).ok_or(format!("loop-carried `{s}` of unknown type"))?);
        }
        let st_ty = if tys.len() == 1 { tys[0].clone() } else { format!("({})", tys.join(" × ")) };
        let st = Self::state_tuple(&state);
        self.n_loops += 1;
        let base = format!("{}.loop{}_body", self.lean_name, self.n_loops);
        // the body, as its own definition
        let saved_lines = std::mem::take(&mut self.lines);
        let saved_indent = self.indent;
        self.indent = 1;
        self.loop_state = Some(state.clone());
        let r: R<()> = (|| {
            self.emit(format!("let {st} := st"));
            for s in &state {
                self.emit(format!("let mut {s} := {s}"));
            }
            match self.block(body, false)? {
                Val::Diverges => {}
                _ => self.emit(format!("pure (Rs.Step.next {st})")),
            }
            Ok(())
        })();
        self.loop_state = None;
        let body_lines = std::mem::replace(&mut self.lines, saved_lines);
        self.indent = saved_indent;
        r?;
        self.uses_fuel = true;
        let (params, args) = if dev {
            self.uses_ext = true;
            (format!(" {{V : Type}} (vis : Rs.Visitor V Gen.ZipFile Gen.ZipFileData) (ext : {EXT_TY}) (fuel : Nat)"), " vis ext fuel")
        } else {
            (String::new(), "")
        };
        self.aux.push(format!("def {base}{params} (st : {st_ty}) : Model.M (Rs.Step {st_ty} {}) := do\n{}\n", self.ret_ty, body_lines.join("\n")));
        let t = self.fresh();
        if dev {
            self.emit(format!("let {t} ← Rs.H.loop ({base}{args}) fuel {st}"));
        } else {
            self.emit(format!("let {t} ← Rs.H.loop {base} fuel {st}"));
        }
        self.emit(format!("match {t} with"));
        match self.kind {
            Kind::Res => self.emit("| Rs.LoopEnd.ret r => return (r, self)".into()),
            Kind::Dev => self.emit("| Rs.LoopEnd.ret r => return r".into()),
            _ => return Err("loop in a function without a result".into()),
        }
        self.emit("| Rs.LoopEnd.done s =>".into());
        self.indent += 1;
        if state.len() == 1 {
            self.emit(format!("{} := s", state[0]));
        } else {
            for (k, v) in state.iter().enumerate() {
                let mut proj = String::new();
                for _ in 0..k { proj += ".2"; }
                if k + 1 < state.len() { proj += ".1"; }
                self.emit(format!("{v} := s{proj}"));
            }
        }
        self.indent -= 1;
        Ok(Val::Atom("()".into(), Some("Unit".into())))
    }

    fn expr(&mut self, e: &Expr, expect: Option<String>) -> R<Val> {
        match e {
            Expr::Paren(p) => self.expr(&p.expr, expect),
            Expr::Group(g) => self.expr(&g.expr, expect),
            Expr::Tuple(t) if t.elems.is_empty() => Ok(Val::Atom("()".into(), Some("Unit".into()))),
            Expr::Lit(ExprLit { lit: Lit::Int(i), .. }) => {
                let (b, sfx) = lit_str(i);
                let ty = sfx.as_deref().and_then(prim_ty).map(|s| s.to_string()).or(expect).ok_or("integer literal of unknown type")?;
                Ok(Val::Atom(format!("({b} : {ty})"), Some(ty)))
            }
            Expr::Binary(b) if matches!(b.op, BinOp::Shl(_)) => {
                let ty = expect.ok_or("shift of unknown type")?;
                let l = match self.expr(&b.left, Some(ty.clone()))? { Val::Atom(a, _) => a, _ => return Err("shift".into()) };
                let k = match &*b.right { Expr::Lit(ExprLit { lit: Lit::Int(i), .. }) if i.suffix().is_empty() => lit_str(i).0, _ => return Err("shift by a non-literal".into()) };
                let t = self.bind_opt(format!("Rs.Arith.shl {l} {k}"));
                Ok(Val::Atom(t, Some(ty)))
            }
            Expr::Path(p) => {
                let segs: Vec<String> = p.path.segments.iter().map(|s| s.ident.to_string()).collect();
                if segs.len() == 1 {
                    let v = &segs[0];
                    if v == "self" {
                        if self.kind == Kind::Pure {
                            return Ok(Val::Atom("self".into(), Some(format!("Gen.{}", self.self_ty))));
                        }
                        return Err("`self` as a value in a `&mut self` method".into());
                    }
                    if v == "None" {
                        return Ok(Val::Atom("none".into(), expect));
                    }
                    if let Some((pl, ty)) = self.alias.get(v) {
                        return Ok(Val::Atom(pl.clone(), ty.clone()));
                    }
                    if let Some((ty, _)) = self.vars.get(v) {
                        return Ok(Val::Atom(v.clone(), ty.clone()));
                    }
                    return Err(format!("unknown identifier {v}"));
                }
                let (en, v) = (&segs[segs.len() - 2], &segs[segs.len() - 1]);
                if self.reg.enums.get(en).map(|vs| vs.iter().any(|(n, p)| n == v && !*p)).unwrap_or(false) {
                    return Ok(Val::Atom(format!("Gen.{en}.{v}"), Some(format!("Gen.{en}"))));
                }
                if self.reg.consts.contains(v) {
                    return Ok(Val::Atom(format!("Gen.{v}"), self.reg.const_ty.get(v).cloned()));
                }
                Err(format!("path {}", segs.join("::")))
            }
            Expr::Field(_) => {
                let (pl, ty) = self.place(e).ok_or("field access")?;
                Ok(Val::Atom(pl, ty))
            }
            Expr::Reference(r) => self.expr(&r.expr, expect),
            Expr::Call(c) => {
                let segs: Vec<String> = match &*c.func { Expr::Path(p) => p.path.segments.iter().map(|s| s.ident.to_string()).collect(), _ => return Err("call".into()) };
                let last = segs.last().cloned().unwrap_or_default();
                if segs.len() == 1 && (last == "Ok" || last == "Err" || last == "Some") && c.args.len() == 1 {
                    let parts = expect.as_deref().and_then(t6r2::split_except);
                    let sub = match last.as_str() {
                        "Ok" => parts.map(|(_, t)| t),
                        "Err" => parts.map(|(e, _)| e),
                        _ => expect.as_deref().and_then(split_app).filter(|(h, _)| h == "Option").map(|(_, a)| a),
                    };
                    let a = match self.expr(&c.args[0], sub)? { Val::Atom(a, _) => a, Val::Diverges => return Err("diverging argument".into()) };
                    let ctor = match last.as_str() { "Ok" => "Except.ok", "Err" => "Except.error", _ => "some" };
                    return Ok(Val::Atom(format!("({ctor} {a})"), expect));
                }
                if segs.len() >= 2 && segs[segs.len() - 2] == "mem" && last == "replace" && c.args.len() == 2 {
                    let (pl, ty) = match &c.args[0] {
                        Expr::Path(p) if p.path.segments.len() == 1 => self.alias.get(&path_last(&p.path)).cloned().ok_or("mem::replace on something other than a place alias")?,
                        _ => return Err("mem::replace on something other than a place alias".into()),
                    };
                    let v = match self.expr(&c.args[1], ty.clone())? { Val::Atom(a, _) => a, Val::Diverges => return Err("diverging argument".into()) };
                    let t = self.fresh();
                    self.emit(format!("let {t} := {pl}"));
                    self.assign_place(&pl, &v)?;
                    return Ok(Val::Atom(t, ty));
                }
                Err(format!("call of {}", segs.join("::")))
            }
            Expr::Try(t) => {
                if self.kind != Kind::Dev {
                    return Err("`?` outside a device method".into());
                }
                if let Some(v) = self.in_monad(&t.expr)? {
                    // the callee's error leaves the function through the monad: nothing of this scope may need a drop
                    if !self.droppable.is_empty() {
                        return Err("`?` on a call while a handle is in scope".into());
                    }
                    return Ok(v);
                }
                match self.expr(&t.expr, None)? {
                    Val::Atom(a, ty) if ty.as_deref().and_then(t6r2::split_except).is_some() => self.try_value(&a, ty),
                    _ => Err("`?` on something that is not a Result".into()),
                }
            }
            Expr::Binary(b) if matches!(b.op, BinOp::Eq(_) | BinOp::Ne(_)) => {
                let l = match self.expr(&b.left, None)? { Val::Atom(a, t) => (a, t), _ => return Err("comparison".into()) };
                let r = match self.expr(&b.right, l.1.clone())? { Val::Atom(a, _) => a, _ => return Err("comparison".into()) };
                let op = if matches!(b.op, BinOp::Eq(_)) { "==" } else { "!=" };
                Ok(Val::Atom(format!("({} {op} {r})", l.0), Some("Bool".into())))
            }
            Expr::MethodCall(m) => self.method(m),
            Expr::Match(m) => {
                if m.arms.iter().all(|a| is_unit_or_diverges(&a.body)) {
                    self.match_stmt(m, false)
                } else {
                    self.match_value(m, expect)
                }
            }
            Expr::Block(b) => self.block(&b.block, false),
            Expr::Return(r) => {
                let e = r.expr.as_ref().ok_or("return without a value")?;
                let ty = Some(self.ret_ty.clone());
                match self.expr(e, ty)? {
                    Val::Atom(a, _) => self.ret(&a)?,
                    Val::Diverges => {}
                }
                Ok(Val::Diverges)
            }
            Expr::Break(b) => {
                if b.label.is_some() || b.expr.is_some() {
                    return Err("break with label / value".into());
                }
                let st = self.loop_state.clone().ok_or("break outside a loop")?;
                self.emit(format!("return Rs.Step.brk {}", Self::state_tuple(&st)));
                Ok(Val::Diverges)
            }
            Expr::Macro(m) if m.mac.path.is_ident("panic") => {
                self.diverge_panic();
                Ok(Val::Diverges)
            }
            _ => Err(format!("expression form `{}`", quote::quote!(#e).to_string().chars().take(40).collect::<String>())),
        }
    }
}

fn expr_attrs(e: &Expr) -> &[Attribute] {
    match e {
        Expr::If(x) => &x.attrs,
        Expr::Match(x) => &x.attrs,
        Expr::Block(x) => &x.attrs,
        Expr::MethodCall(x) => &x.attrs,
        Expr::Call(x) => &x.attrs,
        Expr::Return(x) => &x.attrs,
        Expr::Loop(x) => &x.attrs,
        _ => &[],
    }
}

fn is_unit_or_diverges(e: &Expr) -> bool {
    match e {
        Expr::Tuple(t) => t.elems.is_empty(),
        Expr::Return(_) | Expr::Break(_) => true,
        Expr::Macro(m) => m.mac.path.is_ident("panic"),
        Expr::Block(b) => b.block.stmts.last().map(|s| matches!(s, Stmt::Expr(_, Some(_)) | Stmt::Local(_))).unwrap_or(true),
        _ => false,
    }
}

/// Is `ty` a tuple structure `struct S<R>(R)` wrapping its reader?
fn is_dev_struct(all: &[&Item], ty: &str) -> bool {
    for it in all {
        if let Item::Struct(st) = it {
            if st.ident == ty {
                let tps: Vec<String> = st.generics.params.iter().filter_map(|g| if let GenericParam::Type(t) = g { Some(t.ident.to_string()) } else { None }).collect();
                if let Fields::Unnamed(u) = &st.fields {
                    return u.unnamed.len() == 1 && tps.len() == 1 && matches!(&u.unnamed[0].ty, Type::Path(p) if p.path.is_ident(tps[0].as_str()));
                }
            }
        }
    }
    false
}

fn result_arg(t: &Type) -> Option<&Type> {
    if let Type::Path(p) = t {
        if matches!(path_last(&p.path).as_str(), "Result" | "ZipResult") {
            if let PathArguments::AngleBracketed(a) = &p.path.segments.last().unwrap().arguments {
                if a.args.len() == 1 {
                    if let GenericArgument::Type(t0) = &a.args[0] {
                        return Some(t0);
                    }
                }
            }
        }
    }
    None
}

pub fn translate_hfn(reg: &Registry, failed: &HashSet<String>, all: &[&Item], name: &str) -> R<(String, String, usize, usize)> {
    let (ty, m) = name.split_once("::").ok_or("hfn needs Type::method")?;
    let (_im, f) = t6l::find_method(all, ty, m).ok_or("not found")?;
    let lean_name = format!("Gen.{ty}.{m}");
    let recv = f.sig.inputs.iter().find_map(|a| if let FnArg::Receiver(r) = a { Some(r) } else { None }).ok_or("function without `self`")?;
    let tr = Tr::new(reg, failed, Some(ty.to_string()), 0);
    let by_ref = recv.reference.is_some();
    let dev = is_dev_struct(all, ty);
    if !dev && by_ref && recv.mutability.is_none() {
        return Err("`&self` method".into());
    }
    let body_text = { let b = &f.block; quote::quote!(#b).to_string() };
    let mut h = H { reg, failed, all, self_ty: ty.to_string(), lean_name: lean_name.clone(), kind: Kind::Pure, ret_ty: String::new(), lines: vec![], indent: 1, n: 0, vars: HashMap::new(), alias: HashMap::new(), aux: vec![], uses_fuel: false, n_loops: 0, loop_state: None, body_text, visitor: None, uses_ext: false, droppable: vec![], lit_vars: HashMap::new(), mut_binds: RefCell::new(vec![]) };
    // parameters: only a `visitor: &mut V` (`V` a type parameter bounded by a visitor trait) of a device method
    for a in f.sig.inputs.iter() {
        if let FnArg::Typed(t) = a {
            let n = match &*t.pat { Pat::Ident(id) => id.ident.to_string(), _ => return Err("parameter pattern".into()) };
            let is_vis = dev && matches!(&*t.ty, Type::Reference(r) if r.mutability.is_some() && matches!(&*r.elem, Type::Path(p) if f.sig.generics.params.iter().any(|g| matches!(g, GenericParam::Type(tp) if p.path.is_ident(&tp.ident) && tp.bounds.iter().any(|b| matches!(b, TypeParamBound::Trait(tb) if path_last(&tb.path) == "ZipStreamVisitor"))))));
            if !is_vis || h.visitor.is_some() {
                return Err(format!("parameter `{n}`"));
            }
            h.visitor = Some(n.clone());
            h.vars.insert(n, (Some("V".into()), true));
        }
    }
    let (kind, res, ret_ty) = if dev {
        let t0 = match &f.sig.output { ReturnType::Type(_, t) => result_arg(t).ok_or("device method that does not return a ZipResult")?, _ => return Err("device method without a result".into()) };
        let inner = h.ty2(t0)?;
        let full = if h.visitor.is_some() { format!("({inner} × V)") } else { inner.clone() };
        (Kind::Dev, Some(inner), full)
    } else {
        match &f.sig.output {
            ReturnType::Default if by_ref => (Kind::UnitMut, None, "Unit".to_string()),
            ReturnType::Default => return Err("by-value method without a result".into()),
            ReturnType::Type(_, t) => {
                if by_ref {
                    let inner = tr.ty(result_arg(t).ok_or("`&mut self` method that does not return a Result")?)?;
                    (Kind::Res, Some(inner.clone()), format!("(Except ZErr {inner})"))
                } else {
                    let t = tr.ty(t)?;
                    (Kind::Pure, Some(t.clone()), t)
                }
            }
        }
    };
    h.kind = kind.clone();
    h.ret_ty = ret_ty.clone();
    if kind == Kind::Res || kind == Kind::UnitMut {
        h.emit("let mut self := self".into());
    }
    if let Some(v) = h.visitor.clone() {
        h.emit(format!("let mut {v} := {v}"));
    }
    match h.block(&f.block, true)? {
        Val::Diverges => {}
        Val::Atom(a, _) => match kind {
            Kind::UnitMut => h.emit("return self".into()),
            _ => h.ret(&a)?,
        },
    }
    let fuel = if h.uses_fuel { " (fuel : Nat)" } else { "" };
    let sig = match kind {
        Kind::Pure => format!("def {lean_name} (self : Gen.{ty}) : Option {ret_ty} := do"),
        Kind::Res => format!("def {lean_name}{fuel} (self : Gen.{ty}) : Model.M ({ret_ty} × Gen.{ty}) := do"),
        Kind::UnitMut => format!("def {lean_name}{fuel} (self : Gen.{ty}) : Model.M Gen.{ty} := do"),
        Kind::Dev => match &h.visitor {
            Some(v) => format!("def {lean_name} {{V : Type}} (vis : Rs.Visitor V Gen.ZipFile Gen.ZipFileData) (ext : {EXT_TY}) (fuel : Nat) ({v} : V) : Model.M {ret_ty} := do"),
            None => {
                if h.uses_ext || h.uses_fuel {
                    return Err("device method without a visitor that needs `ext` / `fuel`".into());
                }
                format!("def {lean_name} : Model.M {ret_ty} := do")
            }
        },
    };
    HFNS.with(|x| x.borrow_mut().insert(name.to_string(), HInfo { res: if kind == Kind::UnitMut { None } else { res }, pure_fn: kind == Kind::Pure, fuel: h.uses_fuel, dev: kind == Kind::Dev }));
    let mut text = String::new();
    for a in &h.aux {
        text += a;
        text.push('\n');
    }
    text += &sig;
    text.push('\n');
    text += &h.lines.join("\n");
    text.push('\n');
    let hash = tokens_hash(&quote::quote!(#f));
    Ok((text, hash, f.span().start().line, f.span().end().line))
}
