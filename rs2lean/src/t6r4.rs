//! EXTRACT mode (tier T6, helper t6r4): item kind `efn` - the two extractors and `apply_unix_modes`.
//!
//! A function that acts on the host filesystem through std and on the archive through the crate's reader becomes
//! `Gen.f [Rs.PathOps] (ops : Rs.FsOps …) (eo : Rs.ErrOps …) (args) : Rs.X W E α` (vocabulary and the meaning of every
//! construct: `lean/ZipVerif/Basic/RsX.lean`).  The translation is statement by statement; the only tables are
//! method / path name → combinator.  A `struct` + `impl Trait for` declared INSIDE the function body (the visitor
//! `Extractor` of `ZipStreamReader::extract`) are emitted in front of the function, under its name.
//! Anything else makes the item `untranslated`.
use super::*;
use std::cell::RefCell;

#[derive(Clone, PartialEq, Debug)]
enum K {
    Handle,
    Meta,
    Path,
    Rel,
    OptRel,
    OptPath,
    Str,
    Fh,
    Vec,
    Bool,
    OptU32,
    Src,
    Stream,
    /// a value of a structure declared inside the function (with its `impl ZipStreamVisitor`)
    Local(String),
    /// a `Result<(), _>` bound by `let r = f(..);` (no `?`)
    Res(ErrK),
    Other,
}

#[derive(Clone, PartialEq, Debug)]
enum ErrK {
    Zip,
    Io,
}

#[derive(Clone, Debug)]
struct EInfo {
    err: ErrK,
    params: Vec<String>,
    /// the Lean name
    lean: String,
    /// a collector (`Basic/RsX.lean`): its `&mut Vec` parameter is observable after an `Err`
    collector: bool,
}

thread_local! {
    static EFNS: RefCell<HashMap<String, EInfo>> = RefCell::new(HashMap::new());
}

const TPARAMS: &str = "[Rs.PathOps] {W P Fh IoE E : Type} (ops : Rs.FsOps W P Gen.ZipFile Fh IoE) (eo : Rs.ErrOps IoE E)";

struct X {
    lean_name: String,
    lines: Vec<String>,
    indent: usize,
    n: usize,
    /// variable → (kind, Lean type, mutable)
    vars: HashMap<String, (K, String, bool)>,
    zip_result: bool,
    aux: Vec<String>,
    n_loops: usize,
    /// what the tail `Ok(v)` returns besides the value (`self`, `&mut` parameters)
    ret_extra: Vec<String>,
    /// local structures: name → (Lean name, fields (kind, Lean type))
    locals: HashMap<String, (String, Vec<(K, String)>)>,
    /// the tokens of the function body that follow the statement being translated (look-ahead for `Vec::new()`)
    body: Option<Block>,
    /// translating a collector: its one loop becomes `Rs.X.forRangeK`
    k_loop: bool,
}

fn segs(p: &Path) -> Vec<String> {
    p.segments.iter().map(|s| s.ident.to_string()).collect()
}

fn strip(e: &Expr) -> &Expr {
    match e {
        Expr::Reference(r) => strip(&r.expr),
        Expr::Paren(p) => strip(&p.expr),
        Expr::Unary(u) if matches!(u.op, UnOp::Deref(_)) => strip(&u.expr),
        _ => e,
    }
}

/// the components of a Lean product type `(A × B × C)`
fn split_prod(t: &str) -> Vec<String> {
    let t = t.trim();
    let inner = match t.strip_prefix('(').and_then(|x| x.strip_suffix(')')) { Some(i) => i, None => return vec![t.to_string()] };
    let mut out = vec![];
    let mut depth = 0;
    let mut cur = String::new();
    for ch in inner.chars() {
        match ch {
            '(' => { depth += 1; cur.push(ch); }
            ')' => { depth -= 1; cur.push(ch); }
            '×' if depth == 0 => { out.push(cur.trim().to_string()); cur.clear(); }
            _ => cur.push(ch),
        }
    }
    out.push(cur.trim().to_string());
    out
}

fn stmt_attrs(e: &Expr) -> &[Attribute] {
    match e {
        Expr::Try(x) => &x.attrs,
        Expr::If(x) => &x.attrs,
        Expr::Block(x) => &x.attrs,
        Expr::ForLoop(x) => &x.attrs,
        Expr::MethodCall(x) => &x.attrs,
        Expr::Call(x) => &x.attrs,
        _ => &[],
    }
}

fn ident_of(e: &Expr) -> Option<String> {
    match strip(e) {
        Expr::Path(p) if p.path.segments.len() == 1 => Some(p.path.segments[0].ident.to_string()),
        _ => None,
    }
}

/// the Lean type of a Rust type in this mode
fn ety(t: &Type, locals: &HashMap<String, (String, Vec<(K, String)>)>) -> R<(K, String)> {
    match t {
        Type::Reference(r) => ety(&r.elem, locals),
        Type::Paren(p) => ety(&p.elem, locals),
        Type::Tuple(tu) => {
            if tu.elems.is_empty() {
                return Ok((K::Other, "Unit".into()));
            }
            let ts: R<Vec<String>> = tu.elems.iter().map(|x| ety(x, locals).map(|p| p.1)).collect();
            Ok((K::Other, format!("({})", ts?.join(" × "))))
        }
        Type::Path(p) => {
            let last = p.path.segments.last().ok_or("empty path")?;
            let name = last.ident.to_string();
            let args: Vec<&Type> = match &last.arguments {
                PathArguments::AngleBracketed(a) => a.args.iter().filter_map(|g| if let GenericArgument::Type(t) = g { Some(t) } else { None }).collect(),
                _ => vec![],
            };
            match name.as_str() {
                "usize" | "u64" => Ok((K::Other, "UInt64".into())),
                "u32" => Ok((K::Other, "UInt32".into())),
                "Path" | "PathBuf" => Ok((K::Path, "P".into())),
                // `P: AsRef<Path>` of the signature
                "P" => Ok((K::Path, "P".into())),
                "ZipFile" => Ok((K::Handle, "Gen.ZipFile".into())),
                "ZipStreamFileMetadata" => Ok((K::Meta, "Gen.ZipStreamFileMetadata".into())),
                "Vec" if args.len() == 1 => Ok((K::Vec, format!("(List {})", ety(args[0], locals)?.1))),
                _ => Err(format!("type `{name}`")),
            }
        }
        _ => Err("type".into()),
    }
}

fn result_kind(out: &ReturnType) -> R<ErrK> {
    if let ReturnType::Type(_, t) = out {
        if let Type::Path(p) = &**t {
            let s = segs(&p.path);
            let last = p.path.segments.last().unwrap();
            let unit = matches!(&last.arguments, PathArguments::AngleBracketed(a) if a.args.len() == 1 && matches!(&a.args[0], GenericArgument::Type(Type::Tuple(t)) if t.elems.is_empty()));
            if !unit {
                return Err("result type other than ()".into());
            }
            if s == ["ZipResult"] {
                return Ok(ErrK::Zip);
            }
            if s == ["io", "Result"] {
                return Ok(ErrK::Io);
            }
        }
    }
    Err("function that returns neither ZipResult<()> nor io::Result<()>".into())
}

impl X {
    fn emit(&mut self, s: String) {
        self.lines.push(format!("{}{}", "  ".repeat(self.indent), s));
    }
    fn fresh(&mut self) -> String {
        self.n += 1;
        format!("t{}", self.n)
    }
    fn err_ty(&self) -> &'static str {
        if self.zip_result { "E" } else { "IoE" }
    }

    /// an error value
    fn err_expr(&mut self, e: &Expr) -> R<String> {
        if let Expr::Call(c) = strip(e) {
            if let Expr::Path(p) = &*c.func {
                if segs(&p.path) == ["ZipError", "InvalidArchive"] && c.args.len() == 1 {
                    if let Expr::Lit(ExprLit { lit: Lit::Str(s), .. }) = &c.args[0] {
                        if !self.zip_result {
                            return Err("ZipError in a function returning io::Result".into());
                        }
                        return Ok(format!("(eo.invalid_archive {:?})", s.value()));
                    }
                }
            }
        }
        Err("error value".into())
    }

    /// a call that returns a `Result` and is followed by `?`: (computation, kind of the value, error kind, the
    /// `&mut` argument it writes back)
    fn call(&mut self, e: &Expr) -> R<(String, K, ErrK, Option<String>)> {
        match e {
            Expr::MethodCall(m) => {
                let (r, rk) = self.expr(&m.receiver)?;
                let name = m.method.to_string();
                match (&rk, name.as_str()) {
                    (K::Src, "by_index") if m.args.len() == 1 => {
                        let (a, _) = self.expr(&m.args[0])?;
                        Ok((format!("{r}.by_index {a}"), K::Handle, ErrK::Zip, None))
                    }
                    (K::Stream, "visit") if m.args.len() == 1 => {
                        let is_mut_ref = matches!(&m.args[0], Expr::Reference(rf) if rf.mutability.is_some());
                        let v = ident_of(&m.args[0]).ok_or("visitor argument")?;
                        let (vk, _, vm) = self.vars.get(&v).cloned().ok_or("visitor variable")?;
                        let ln = match &vk {
                            K::Local(s) => self.locals.get(s).ok_or("visitor type")?.0.clone(),
                            _ => return Err("visitor that is not a local structure".into()),
                        };
                        if !is_mut_ref || !vm {
                            return Err("visitor not passed as `&mut` of a mutable local".into());
                        }
                        Ok((format!("Rs.X.unK ({r}.visit ({ln}.visit_file ops eo) ({ln}.visit_additional_metadata ops eo) {v})"), K::Other, ErrK::Zip, Some(v)))
                    }
                    _ => Err(format!("call `.{name}(..)?`")),
                }
            }
            Expr::Call(c) => {
                let p = match &*c.func { Expr::Path(p) => segs(&p.path), _ => return Err("callee".into()) };
                let tail: Vec<&str> = p.iter().map(|s| s.as_str()).filter(|s| *s != "std").collect();
                match tail.as_slice() {
                    ["fs", "create_dir_all"] if c.args.len() == 1 => {
                        let a = self.path_arg(&c.args[0])?;
                        Ok((format!("ops.create_dir_all {a}"), K::Other, ErrK::Io, None))
                    }
                    ["fs", "File", "create"] if c.args.len() == 1 => {
                        let a = self.path_arg(&c.args[0])?;
                        Ok((format!("ops.file_create {a}"), K::Fh, ErrK::Io, None))
                    }
                    ["fs", "set_permissions"] if c.args.len() == 2 => {
                        let a = self.path_arg(&c.args[0])?;
                        let (m, _) = self.expr(&c.args[1])?;
                        Ok((format!("ops.set_permissions {a} {m}"), K::Other, ErrK::Io, None))
                    }
                    ["io", "copy"] if c.args.len() == 2 => {
                        let f = ident_of(&c.args[0]).ok_or("io::copy source")?;
                        let o = ident_of(&c.args[1]).ok_or("io::copy sink")?;
                        match (self.vars.get(&f), self.vars.get(&o)) {
                            (Some((K::Handle, _, true)), Some((K::Fh, _, true))) => {}
                            _ => return Err("io::copy outside `handle -> File`, both mutable".into()),
                        }
                        if !matches!(&c.args[1], Expr::Reference(rf) if rf.mutability.is_some()) {
                            return Err("io::copy sink".into());
                        }
                        Ok((format!("ops.copy {f} {o}"), K::Other, ErrK::Io, Some(f)))
                    }
                    _ => {
                        let name = tail.last().copied().unwrap_or("");
                        let info = EFNS.with(|x| x.borrow().get(name).cloned());
                        if let Some(info) = info {
                            if tail.iter().rev().skip(1).any(|s| *s != "super") || info.params.len() != c.args.len() {
                                return Err(format!("call of `{name}`"));
                            }
                            let mut args = vec![];
                            for a in &c.args {
                                args.push(self.expr(a)?.0);
                            }
                            return Ok((format!("Gen.{name} ops eo {}", args.join(" ")), K::Other, info.err, None));
                        }
                        Err(format!("call `{}(..)?`", p.join("::")))
                    }
                }
            }
            _ => Err("`?` on something that is not a call".into()),
        }
    }

    fn path_arg(&mut self, e: &Expr) -> R<String> {
        let (a, k) = self.expr(e)?;
        if k != K::Path {
            return Err("filesystem call on something that is not a path".into());
        }
        Ok(a)
    }

    fn expr(&mut self, e: &Expr) -> R<(String, K)> {
        match e {
            Expr::Reference(r) => self.expr(&r.expr),
            Expr::Paren(p) => self.expr(&p.expr),
            Expr::Unary(u) => match u.op {
                UnOp::Deref(_) => self.expr(&u.expr),
                UnOp::Not(_) => {
                    let (a, k) = self.expr(&u.expr)?;
                    if k != K::Bool {
                        return Err("`!` on a non-boolean".into());
                    }
                    Ok((format!("(!{a})"), K::Bool))
                }
                _ => Err("unary operator".into()),
            },
            Expr::Lit(ExprLit { lit: Lit::Int(l), .. }) => {
                let (b, _) = lit_str(l);
                Ok((format!("({b} : UInt64)"), K::Other))
            }
            Expr::Path(p) => {
                let v = ident_of(e).ok_or_else(|| format!("path `{}`", segs(&p.path).join("::")))?;
                let (k, _, _) = self.vars.get(&v).cloned().ok_or_else(|| format!("unknown variable `{v}`"))?;
                Ok((v, k))
            }
            Expr::Tuple(t) => {
                if t.elems.is_empty() {
                    return Ok(("()".into(), K::Other));
                }
                let mut xs = vec![];
                for x in &t.elems {
                    xs.push(self.expr(x)?.0);
                }
                Ok((format!("({})", xs.join(", ")), K::Other))
            }
            Expr::Field(f) => {
                let (b, bk) = self.expr(&f.base)?;
                if let (K::Local(s), Member::Unnamed(i)) = (&bk, &f.member) {
                    let fields = &self.locals.get(s).ok_or("local structure")?.1;
                    let (k, _) = fields.get(i.index as usize).cloned().ok_or("field index")?;
                    return Ok((format!("{b}._{}", i.index), k));
                }
                Err("field access".into())
            }
            Expr::Try(t) => {
                // `opt.ok_or(e)?`
                if let Expr::MethodCall(m) = &*t.expr {
                    if m.method == "ok_or" && m.args.len() == 1 {
                        let (o, ok) = self.expr(&m.receiver)?;
                        let k = match ok { K::OptRel => K::Rel, K::OptPath => K::Path, _ => return Err("ok_or on a non-option".into()) };
                        let er = self.err_expr(&m.args[0])?;
                        let t = self.fresh();
                        self.emit(format!("let {t} ← Rs.X.okOr {o} {er}"));
                        return Ok((t, k));
                    }
                }
                if let Some(v) = ident_of(&t.expr) {
                    if let Some((K::Res(ek), _, _)) = self.vars.get(&v).cloned() {
                        let c = match (&ek, self.zip_result) {
                            (ErrK::Io, true) => format!("Rs.X.io eo.io (Rs.X.ofRes {v})"),
                            (ErrK::Zip, true) | (ErrK::Io, false) => format!("Rs.X.ofRes {v}"),
                            (ErrK::Zip, false) => return Err("`?` on a ZipResult in a function returning io::Result".into()),
                        };
                        let t = self.fresh();
                        self.emit(format!("let {t} ← {c}"));
                        return Ok((t, K::Other));
                    }
                }
                let (c, k, ek, wb) = self.call(&t.expr)?;
                let c = match (&ek, self.zip_result) {
                    (ErrK::Io, true) => format!("Rs.X.io eo.io ({c})"),
                    (ErrK::Zip, true) | (ErrK::Io, false) => c,
                    (ErrK::Zip, false) => return Err("`?` on a ZipResult in a function returning io::Result".into()),
                };
                let t = self.fresh();
                match wb {
                    Some(v) => {
                        let t2 = self.fresh();
                        self.emit(format!("let ({t}, {t2}) ← {c}"));
                        self.emit(format!("{v} := {t2}"));
                    }
                    None => self.emit(format!("let {t} ← {c}")),
                }
                Ok((t, k))
            }
            Expr::MethodCall(m) => {
                let name = m.method.to_string();
                let (r, rk) = self.expr(&m.receiver)?;
                match (&rk, name.as_str(), m.args.len()) {
                    // accessors translated in the panic monad (LAYER mode); a missing one fails to compile
                    (K::Handle, _, 0) | (K::Meta, _, 0) => {
                        let ty = if rk == K::Handle { "Gen.ZipFile" } else { "Gen.ZipStreamFileMetadata" };
                        let k = match name.as_str() { "enclosed_name" => K::OptRel, "name" => K::Str, "unix_mode" => K::OptU32, _ => K::Other };
                        let t = self.fresh();
                        self.emit(format!("let {t} ← Rs.X.lift ({ty}.{name} {r})"));
                        Ok((t, k))
                    }
                    (K::Path, "as_ref", 0) => Ok((r, K::Path)),
                    (K::Path, "join", 1) => {
                        let (a, ak) = self.expr(&m.args[0])?;
                        if ak != K::Rel {
                            return Err("join of something that is not a relative path".into());
                        }
                        Ok((format!("(ops.join {r} {a})"), K::Path))
                    }
                    (K::Path, "parent", 0) => Ok((format!("(ops.parent {r})"), K::OptPath)),
                    (K::Path, "exists", 0) => {
                        let t = self.fresh();
                        self.emit(format!("let {t} ← Rs.X.observe (ops.exists {r})"));
                        Ok((t, K::Bool))
                    }
                    (K::Str, "ends_with", 1) => {
                        if let Expr::Lit(ExprLit { lit: Lit::Char(c), .. }) = &m.args[0] {
                            if c.value().is_ascii() {
                                return Ok((format!("(Rs.Str.endsWithAscii {r} {})", c.value() as u32), K::Bool));
                            }
                        }
                        Err("ends_with argument".into())
                    }
                    (K::Src, "len", 0) => Ok((format!("{r}.len"), K::Other)),
                    _ => Err(format!("method `.{name}`")),
                }
            }
            Expr::Call(c) => {
                let p = match &*c.func { Expr::Path(p) => segs(&p.path), _ => return Err("callee".into()) };
                let tail: Vec<&str> = p.iter().map(|s| s.as_str()).filter(|s| *s != "std").collect();
                match tail.as_slice() {
                    ["fs", "Permissions", "from_mode"] if c.args.len() == 1 => {
                        let (a, _) = self.expr(&c.args[0])?;
                        Ok((format!("(Rs.Permissions.from_mode {a})"), K::Other))
                    }
                    ["cmp", "Reverse"] if c.args.len() == 1 => {
                        let (a, _) = self.expr(&c.args[0])?;
                        Ok((format!("(Rs.Reverse.mk {a})"), K::Other))
                    }
                    [s] if self.locals.contains_key(*s) => {
                        let (ln, fields) = self.locals.get(*s).cloned().unwrap();
                        if fields.len() != c.args.len() {
                            return Err("constructor arity".into());
                        }
                        let mut fs = vec![];
                        for (i, a) in c.args.iter().enumerate() {
                            let (x, k) = self.expr(a)?;
                            if k != fields[i].0 {
                                return Err(format!("constructor field {i}"));
                            }
                            fs.push(format!("_{i} := {x}"));
                        }
                        Ok((format!("({{ {} }} : {ln} P)", fs.join(", ")), K::Local(s.to_string())))
                    }
                    ["Vec", "new"] if c.args.is_empty() => Ok(("[]".into(), K::Vec)),
                    // a free function translated in the panic monad (LAYER mode); a missing one fails to compile
                    _ if tail.iter().rev().skip(1).all(|s| *s == "super") && !tail.is_empty() && EFNS.with(|x| !x.borrow().contains_key(*tail.last().unwrap())) => {
                        let name = tail.last().unwrap();
                        if name.chars().next().map_or(true, |ch| ch.is_uppercase()) {
                            return Err(format!("call `{}`", p.join("::")));
                        }
                        let mut args = vec![];
                        for a in &c.args {
                            args.push(self.expr(a)?.0);
                        }
                        let t = self.fresh();
                        self.emit(format!("let {t} ← Rs.X.lift (Gen.{name} {})", args.join(" ")));
                        Ok((t, K::Other))
                    }
                    _ => Err(format!("call `{}`", p.join("::"))),
                }
            }
            _ => Err(format!("expression `{}`", quote::quote!(#e))),
        }
    }

    /// `Vec::new()` bound without a type: the type of the parameter of the translated function the variable is later
    /// passed to
    fn lookahead_vec_ty(&self, v: &str) -> R<String> {
        struct F<'a> { v: &'a str, found: Option<String> }
        impl<'ast, 'a> syn::visit::Visit<'ast> for F<'a> {
            fn visit_expr_call(&mut self, c: &'ast ExprCall) {
                if let Expr::Path(p) = &*c.func {
                    let name = path_last(&p.path);
                    if let Some(info) = EFNS.with(|x| x.borrow().get(&name).cloned()) {
                        for (i, a) in c.args.iter().enumerate() {
                            if ident_of(a).as_deref() == Some(self.v) && self.found.is_none() {
                                self.found = info.params.get(i).cloned();
                            }
                        }
                    }
                }
                syn::visit::visit_expr_call(self, c);
            }
        }
        let mut f = F { v, found: None };
        if let Some(b) = &self.body {
            syn::visit::Visit::visit_block(&mut f, b);
        }
        f.found.ok_or_else(|| format!("`{v} = Vec::new()` whose element type is not fixed by a translated callee"))
    }

    /// `let r = f(..);` for a translated `f` that returns a `Result` (no `?`): the `Result` as a value
    fn let_result(&mut self, v: &str, mutable: bool, e: &Expr) -> R<Option<()>> {
        let (name, args, is_method): (String, Vec<&Expr>, bool) = match e {
            Expr::MethodCall(m) => {
                if ident_of(&m.receiver).as_deref() != Some("self") { return Ok(None); }
                if m.method == "visit" && self.vars.get("self").map(|x| &x.0) == Some(&K::Stream) {
                    // `let visited = self.visit(&mut visitor);`: the `Result` as a value, the visitor as `visit` left it
                    if mutable {
                        return Err("let of the result of `visit`".into());
                    }
                    let (c, _, ek, wb) = self.call(e)?;
                    let c = c.strip_prefix("Rs.X.unK ").ok_or("visit computation")?.to_string();
                    let w = wb.ok_or("visit without its visitor")?;
                    let t = self.fresh();
                    self.emit(format!("let ({v}, {t}) ← Rs.X.keep {c}"));
                    self.emit(format!("{w} := {t}"));
                    self.vars.insert(v.to_string(), (K::Res(ek), String::new(), false));
                    return Ok(Some(()));
                }
                (m.method.to_string(), m.args.iter().collect(), true)
            }
            Expr::Call(c) => match &*c.func {
                Expr::Path(p) if p.path.segments.iter().rev().skip(1).all(|s| s.ident == "super") => (path_last(&p.path), c.args.iter().collect(), false),
                _ => return Ok(None),
            },
            _ => return Ok(None),
        };
        let info = match EFNS.with(|x| x.borrow().get(&name).cloned()) { Some(i) => i, None => return Ok(None) };
        if mutable || info.params.len() != args.len() {
            return Err(format!("let of the result of `{name}`"));
        }
        if is_method != info.collector {
            return Err(format!("call of `{name}`"));
        }
        let mut xs = vec![];
        let mut wb: Option<String> = None;
        for a in &args {
            if matches!(a, Expr::Reference(rf) if rf.mutability.is_some()) {
                let w = ident_of(a).ok_or("`&mut` argument")?;
                if !matches!(self.vars.get(&w), Some((K::Vec, _, true))) || wb.is_some() {
                    return Err("`&mut` argument that is not the one mutable vector".into());
                }
                wb = Some(w);
            }
            xs.push(self.expr(a)?.0);
        }
        if info.collector {
            if self.vars.get("self").map(|x| &x.0) != Some(&K::Src) {
                return Err("collector called outside the seekable archive".into());
            }
            let w = wb.ok_or("collector without its `&mut` vector")?;
            let t = self.fresh();
            self.emit(format!("let ({v}, {t}) ← Rs.X.keep ({} ops eo self {})", info.lean, xs.join(" ")));
            self.emit(format!("{w} := {t}"));
        } else {
            if wb.is_some() {
                return Err("`&mut` argument of a function that is not a collector".into());
            }
            self.emit(format!("let {v} ← Rs.X.attempt ({} ops eo {})", info.lean, xs.join(" ")));
        }
        self.vars.insert(v.to_string(), (K::Res(info.err), String::new(), false));
        Ok(Some(()))
    }

    /// outer mutable variables a loop body changes (`v.push(..)`, `v = ..`, `io::copy(&mut v, ..)` are the writes of
    /// the subset)
    fn loop_state(&self, body: &Block) -> Vec<String> {
        struct F { w: Vec<String> }
        impl<'ast> syn::visit::Visit<'ast> for F {
            fn visit_expr_method_call(&mut self, m: &'ast ExprMethodCall) {
                if m.method == "push" || m.method == "sort_by_key" {
                    if let Some(v) = ident_of(&m.receiver) { self.w.push(v); }
                }
                syn::visit::visit_expr_method_call(self, m);
            }
            fn visit_expr_assign(&mut self, a: &'ast ExprAssign) {
                if let Some(v) = ident_of(&a.left) { self.w.push(v); }
                syn::visit::visit_expr_assign(self, a);
            }
            fn visit_expr_reference(&mut self, r: &'ast ExprReference) {
                if r.mutability.is_some() {
                    if let Some(v) = ident_of(&r.expr) { self.w.push(v); }
                }
                syn::visit::visit_expr_reference(self, r);
            }
        }
        let mut f = F { w: vec![] };
        syn::visit::Visit::visit_block(&mut f, body);
        let mut out: Vec<String> = vec![];
        for v in f.w {
            if matches!(self.vars.get(&v), Some((_, _, true))) && !out.contains(&v) {
                out.push(v);
            }
        }
        out.sort();
        out
    }

    fn for_loop(&mut self, fl: &ExprForLoop) -> R<()> {
        self.n_loops += 1;
        let body_name = format!("{}.loop{}_body", self.lean_name, self.n_loops);
        let state = self.loop_state(&fl.body);
        // captured: every variable in scope other than the state
        let mut captured: Vec<(String, String)> = self.vars.iter().filter(|(v, _)| !state.contains(v)).map(|(v, (_, t, _))| (v.clone(), t.clone())).collect();
        captured.sort();
        // the iterator
        enum It { Range(String, String), Vec(String, String) }
        let it = match &*fl.expr {
            Expr::Range(r) if matches!(r.limits, RangeLimits::HalfOpen(_)) => {
                let lo = self.expr(r.start.as_ref().ok_or("range start")?)?.0;
                let hi = self.expr(r.end.as_ref().ok_or("range end")?)?.0;
                It::Range(lo, hi)
            }
            other => {
                let v = ident_of(other).ok_or("for over something that is neither a range nor a vector")?;
                match self.vars.get(&v) {
                    Some((K::Vec, t, _)) => {
                        let el = t.strip_prefix("(List ").and_then(|s| s.strip_suffix(')')).ok_or("element type")?.to_string();
                        It::Vec(v, el)
                    }
                    _ => return Err("for over something that is neither a range nor a vector".into()),
                }
            }
        };
        if let It::Vec(v, _) = &it {
            // the vector is consumed by the loop
            captured.retain(|(c, _)| c != v);
        }
        let st_ty = match state.len() {
            0 => "Unit".to_string(),
            _ => state.iter().map(|v| self.vars[v].1.clone()).collect::<Vec<_>>().join(" × "),
        };
        let st_val = match state.len() { 0 => "()".to_string(), 1 => state[0].clone(), _ => format!("({})", state.join(", ")) };
        // the body, as its own definition
        let mut sub = X { lean_name: self.lean_name.clone(), lines: vec![], indent: 1, n: self.n, vars: self.vars.clone(), zip_result: self.zip_result, aux: vec![], n_loops: self.n_loops, ret_extra: vec![], locals: self.locals.clone(), body: self.body.clone(), k_loop: false };
        let (xname, xty) = match &it {
            It::Range(_, _) => {
                let i = match &*fl.pat { Pat::Ident(id) => id.ident.to_string(), Pat::Wild(_) => "_i".to_string(), _ => return Err("loop pattern".into()) };
                sub.vars.insert(i.clone(), (K::Other, "UInt64".into(), false));
                (i, "UInt64".to_string())
            }
            It::Vec(_, el) => {
                let pat = sub.pat(&fl.pat, Some(el))?;
                sub.emit(format!("let {pat} := x"));
                ("x".to_string(), el.clone())
            }
        };
        if state.len() == 1 {
            sub.emit(format!("let mut {} := st", state[0]));
        } else if !state.is_empty() {
            sub.emit(format!("let {st_val} := st"));
            for v in &state {
                sub.emit(format!("let mut {v} := {v}"));
            }
        }
        sub.block(&fl.body)?;
        sub.emit(format!("pure {st_val}"));
        self.n = sub.n;
        self.n_loops = sub.n_loops;
        self.aux.extend(sub.aux.drain(..));
        let caps: String = captured.iter().map(|(v, t)| format!(" ({v} : {t})")).collect();
        let mut d = format!("def {body_name} {TPARAMS}{caps} ({xname} : {xty}) (st : {st_ty}) : Rs.X W {} ({st_ty}) := do\n", self.err_ty());
        d += &sub.lines.join("\n");
        d.push('\n');
        self.aux.push(d);
        let cap_args: String = captured.iter().map(|(v, _)| format!(" {v}")).collect();
        if self.k_loop {
            // the loop of a collector: every write to the carried vector follows the last `?` of the body
            struct T { found: bool }
            impl<'ast> syn::visit::Visit<'ast> for T {
                fn visit_expr_try(&mut self, t: &'ast ExprTry) { self.found = true; syn::visit::visit_expr_try(self, t); }
            }
            let mut last_try: Option<usize> = None;
            let mut first_write: Option<usize> = None;
            for (i, st) in fl.body.stmts.iter().enumerate() {
                let mut t = T { found: false };
                syn::visit::Visit::visit_stmt(&mut t, st);
                if t.found { last_try = Some(i); }
                let b = Block { brace_token: Default::default(), stmts: vec![st.clone()] };
                if !self.loop_state(&b).is_empty() && first_write.is_none() { first_write = Some(i); }
            }
            if let (Some(t), Some(w)) = (last_try, first_write) {
                if w <= t {
                    return Err("collector loop that writes its vector before its last `?`".into());
                }
            }
            match &it {
                It::Range(lo, hi) if state.len() == 1 => self.emit(format!("Rs.X.forRangeK {lo} {hi} ({body_name} ops eo{cap_args}) {st_val}")),
                _ => return Err("collector loop shape".into()),
            }
            return Ok(());
        }
        let t = self.fresh();
        match &it {
            It::Range(lo, hi) => self.emit(format!("let {t} ← Rs.X.forRange {lo} {hi} ({body_name} ops eo{cap_args}) {st_val}")),
            It::Vec(v, _) => self.emit(format!("let {t} ← Rs.X.forVec {v} ({body_name} ops eo{cap_args}) {st_val}")),
        }
        match state.len() {
            0 => {}
            1 => self.emit(format!("{} := {t}", state[0])),
            _ => {
                let tmp: Vec<String> = state.iter().map(|v| format!("{v}'")).collect();
                self.emit(format!("let ({}) := {t}", tmp.join(", ")));
                for v in &state { self.emit(format!("{v} := {v}'")); }
            }
        }
        Ok(())
    }

    /// an irrefutable pattern; binds its variables (typed by the Lean type of the matched value, when known)
    fn pat(&mut self, p: &Pat, ty: Option<&str>) -> R<String> {
        match p {
            Pat::Wild(_) => Ok("_".into()),
            Pat::Ident(id) if id.subpat.is_none() => {
                let v = id.ident.to_string();
                let k = if ty == Some("P") { K::Path } else { K::Other };
                self.vars.insert(v.clone(), (k, ty.unwrap_or("").to_string(), false));
                Ok(v)
            }
            Pat::Tuple(t) => {
                let parts: Vec<Option<String>> = match ty.map(split_prod) {
                    Some(ps) if ps.len() == t.elems.len() => ps.into_iter().map(Some).collect(),
                    _ => vec![None; t.elems.len()],
                };
                let mut xs = vec![];
                for (x, pt) in t.elems.iter().zip(parts.iter()) {
                    xs.push(self.pat(x, pt.as_deref())?);
                }
                Ok(format!("({})", xs.join(", ")))
            }
            _ => Err("pattern".into()),
        }
    }

    fn block(&mut self, b: &Block) -> R<()> {
        for s in &b.stmts {
            self.stmt(s)?;
        }
        Ok(())
    }

    /// a branch: its statements, then `pure ()`
    fn branch(&mut self, b: &Block) -> R<()> {
        let saved = self.vars.clone();
        self.indent += 1;
        self.block(b)?;
        self.emit("pure ()".into());
        self.indent -= 1;
        self.vars = saved;
        Ok(())
    }

    fn stmt(&mut self, s: &Stmt) -> R<()> {
        match s {
            Stmt::Item(Item::Use(_)) => Ok(()),
            // local structures / impls were emitted in front of the function
            Stmt::Item(Item::Struct(_)) | Stmt::Item(Item::Impl(_)) => Ok(()),
            Stmt::Item(_) => Err("item inside the function".into()),
            Stmt::Macro(_) => Err("macro".into()),
            Stmt::Local(l) => {
                if !cfg_on(&l.attrs) {
                    return Ok(());
                }
                let (v, mutable) = match &l.pat {
                    Pat::Ident(id) if id.subpat.is_none() && id.by_ref.is_none() => (id.ident.to_string(), id.mutability.is_some()),
                    _ => return Err("let pattern".into()),
                };
                let init = l.init.as_ref().ok_or("let without a value")?;
                if init.diverge.is_some() {
                    return Err("let-else".into());
                }
                if let Some(()) = self.let_result(&v, mutable, &init.expr)? {
                    return Ok(());
                }
                let (a, k) = self.expr(&init.expr)?;
                let (a, ty) = match &k {
                    K::Vec if a == "[]" => {
                        let t = self.lookahead_vec_ty(&v)?;
                        (format!("([] : {t})"), t)
                    }
                    K::Handle => (a, "Gen.ZipFile".to_string()),
                    K::Path => (a, "P".to_string()),
                    K::Rel | K::Str => (a, "Bytes".to_string()),
                    K::Fh => (a, "Fh".to_string()),
                    K::Local(s) => (a, format!("({} P)", self.locals[s].0)),
                    K::Other => (a, "UInt64".to_string()),
                    _ => return Err("let of this kind of value".into()),
                };
                self.emit(format!("let {}{v} : {ty} := {a}", if mutable { "mut " } else { "" }));
                self.vars.insert(v, (k, ty, mutable));
                Ok(())
            }
            Stmt::Expr(e, semi) => {
                if !cfg_on(stmt_attrs(e)) {
                    return Ok(());
                }
                match e {
                    Expr::Block(b) => {
                        if !cfg_on(&b.attrs) {
                            return Ok(());
                        }
                        if b.label.is_some() {
                            return Err("labelled block".into());
                        }
                        let saved = self.vars.clone();
                        self.block(&b.block)?;
                        // names of the block go out of scope (kept distinct by the source)
                        for (v, x) in saved { self.vars.insert(v, x); }
                        Ok(())
                    }
                    Expr::ForLoop(fl) => {
                        if !cfg_on(&fl.attrs) || fl.label.is_some() {
                            return Err("for loop attributes".into());
                        }
                        self.for_loop(fl)
                    }
                    Expr::If(i) => {
                        if !cfg_on(&i.attrs) {
                            return Ok(());
                        }
                        if let Expr::Let(l) = &*i.cond {
                            // `if let Some(p) = e { .. } [else { .. }]`
                            let (o, ok) = self.expr(&l.expr)?;
                            let (k, ty) = match ok { K::OptPath => (K::Path, "P"), K::OptU32 => (K::Other, "UInt32"), _ => return Err("if let on this kind of value".into()) };
                            let v = match &*l.pat {
                                Pat::TupleStruct(ts) if segs(&ts.path) == ["Some"] && ts.elems.len() == 1 => match &ts.elems[0] { Pat::Ident(id) if id.subpat.is_none() => id.ident.to_string(), _ => return Err("if let pattern".into()) },
                                _ => return Err("if let pattern".into()),
                            };
                            self.emit(format!("match {o} with"));
                            self.emit(format!("| some {v} =>"));
                            let saved = self.vars.clone();
                            self.vars.insert(v, (k, ty.into(), false));
                            self.indent += 1;
                            self.block(&i.then_branch)?;
                            self.emit("pure ()".into());
                            self.indent -= 1;
                            self.vars = saved;
                            self.emit("| none =>".into());
                            match &i.else_branch {
                                None => { self.indent += 1; self.emit("pure ()".into()); self.indent -= 1; }
                                Some((_, eb)) => match &**eb { Expr::Block(b) => self.branch(&b.block)?, _ => return Err("else if".into()) },
                            }
                            return Ok(());
                        }
                        let (c, ck) = self.expr(&i.cond)?;
                        if ck != K::Bool {
                            return Err("condition".into());
                        }
                        self.emit(format!("if {c} then"));
                        self.branch(&i.then_branch)?;
                        if let Some((_, eb)) = &i.else_branch {
                            self.emit("else".into());
                            match &**eb { Expr::Block(b) => self.branch(&b.block)?, _ => return Err("else if".into()) }
                        }
                        Ok(())
                    }
                    Expr::MethodCall(m) if m.method == "push" && m.args.len() == 1 => {
                        let (a, _) = self.expr(&m.args[0])?;
                        if let Some(v) = ident_of(&m.receiver) {
                            match self.vars.get(&v) {
                                Some((K::Vec, _, true)) => { self.emit(format!("{v} := {v} ++ [{a}]")); Ok(()) }
                                _ => Err("push onto something that is not a mutable vector".into()),
                            }
                        } else if let Expr::Field(f) = &*m.receiver {
                            let b = ident_of(&f.base).ok_or("push receiver")?;
                            let (fa, fk) = self.expr(&m.receiver)?;
                            if fk != K::Vec || !matches!(self.vars.get(&b), Some((_, _, true))) {
                                return Err("push onto something that is not a mutable vector".into());
                            }
                            let fname = fa.rsplit('.').next().unwrap().to_string();
                            self.emit(format!("{b} := {{ {b} with {fname} := {fa} ++ [{a}] }}"));
                            Ok(())
                        } else {
                            Err("push receiver".into())
                        }
                    }
                    Expr::MethodCall(m) if m.method == "sort_by_key" && m.args.len() == 1 => {
                        let v = ident_of(&m.receiver).ok_or("sort receiver")?;
                        if !matches!(self.vars.get(&v), Some((K::Vec, _, true))) {
                            return Err("sort of something that is not a mutable vector".into());
                        }
                        let cl = match &m.args[0] { Expr::Closure(c) if c.inputs.len() == 1 && c.capture.is_none() => c, _ => return Err("sort key".into()) };
                        let saved = self.vars.clone();
                        let p = self.pat(&cl.inputs[0], None)?;
                        let n0 = self.lines.len();
                        let (key, _) = self.expr(&cl.body)?;
                        if self.lines.len() != n0 {
                            return Err("sort key with effects".into());
                        }
                        self.vars = saved;
                        self.emit(format!("{v} := Rs.X.sortByKey (fun {p} => {key}) {v}"));
                        Ok(())
                    }
                    // the tail `Ok(())`
                    Expr::Call(c) if semi.is_none() => {
                        if let Expr::Path(p) = &*c.func {
                            if segs(&p.path) == ["Ok"] && c.args.len() == 1 && matches!(&c.args[0], Expr::Tuple(t) if t.elems.is_empty()) {
                                if self.ret_extra.is_empty() {
                                    self.emit("return ()".into());
                                } else {
                                    self.emit(format!("return ((), {})", self.ret_extra.join(", ")));
                                }
                                return Ok(());
                            }
                        }
                        Err("tail expression".into())
                    }
                    Expr::Try(_) if semi.is_some() => {
                        self.expr(e)?;
                        Ok(())
                    }
                    _ => Err(format!("statement `{}`", quote::quote!(#e))),
                }
            }
        }
    }
}

/// the leaf statements of a block (plain nested blocks flattened)
fn leaf_stmts<'a>(b: &'a Block, out: &mut Vec<&'a Stmt>) {
    for s in &b.stmts {
        match s {
            Stmt::Expr(Expr::Block(eb), _) if eb.label.is_none() => leaf_stmts(&eb.block, out),
            _ => out.push(s),
        }
    }
}

/// in a callback of a local visitor: every write to `self` follows the last `?` (`Basic/RsX.lean`, `StreamOps`)
fn self_writes_follow_tries(b: &Block) -> bool {
    fn root(e: &Expr) -> Option<String> {
        match e {
            Expr::Field(f) => root(&f.base),
            Expr::Reference(r) => root(&r.expr),
            Expr::Paren(p) => root(&p.expr),
            Expr::Index(i) => root(&i.expr),
            _ => ident_of(e),
        }
    }
    struct F { tries: bool, writes: bool }
    impl<'ast> syn::visit::Visit<'ast> for F {
        fn visit_expr_try(&mut self, t: &'ast ExprTry) { self.tries = true; syn::visit::visit_expr_try(self, t); }
        fn visit_expr_method_call(&mut self, m: &'ast ExprMethodCall) {
            // `push` / `sort_by_key` are the mutating methods of the subset (another one leaves the item untranslated)
            if (m.method == "push" || m.method == "sort_by_key") && root(&m.receiver).as_deref() == Some("self") { self.writes = true; }
            syn::visit::visit_expr_method_call(self, m);
        }
        fn visit_expr_assign(&mut self, a: &'ast ExprAssign) {
            if root(&a.left).as_deref() == Some("self") { self.writes = true; }
            syn::visit::visit_expr_assign(self, a);
        }
        fn visit_expr_reference(&mut self, r: &'ast ExprReference) {
            if r.mutability.is_some() && root(&r.expr).as_deref() == Some("self") { self.writes = true; }
            syn::visit::visit_expr_reference(self, r);
        }
    }
    let mut leaves = vec![];
    leaf_stmts(b, &mut leaves);
    let mut last_try: Option<usize> = None;
    let mut first_write: Option<usize> = None;
    for (i, st) in leaves.iter().enumerate() {
        let mut f = F { tries: false, writes: false };
        syn::visit::Visit::visit_stmt(&mut f, st);
        if f.tries { last_try = Some(i); }
        if f.writes && first_write.is_none() { first_write = Some(i); }
    }
    !matches!((last_try, first_write), (Some(t), Some(w)) if w <= t)
}

fn find_fn<'a>(all: &[&'a Item], name: &str) -> Option<(&'a Signature, &'a Block, Option<String>, proc_macro2::TokenStream, (usize, usize))> {
    if let Some((ty, m)) = name.split_once("::") {
        let (_im, f) = t6l::find_method(all, ty, m)?;
        Some((&f.sig, &f.block, Some(ty.to_string()), quote::quote!(#f), (f.span().start().line, f.span().end().line)))
    } else {
        for it in all {
            if let Item::Fn(f) = it {
                if f.sig.ident == name && cfg_on(&f.attrs) {
                    return Some((&f.sig, &f.block, None, quote::quote!(#f), (f.span().start().line, f.span().end().line)));
                }
            }
        }
        None
    }
}

/// one function (or one method of a local `impl`)
#[allow(clippy::too_many_arguments)]
fn translate_one(lean_name: &str, sig: &Signature, block: &Block, self_k: Option<(K, String)>, locals: &HashMap<String, (String, Vec<(K, String)>)>) -> R<(String, EInfo)> {
    let ek = result_kind(&sig.output)?;
    let mut x = X { lean_name: lean_name.to_string(), lines: vec![], indent: 1, n: 0, vars: HashMap::new(), zip_result: ek == ErrK::Zip, aux: vec![], n_loops: 0, ret_extra: vec![], locals: locals.clone(), body: Some(block.clone()), k_loop: false };
    // a collector (`Basic/RsX.lean`): a method of the seekable archive with a `&mut Vec` parameter
    let collector = matches!(&self_k, Some((K::Src, _))) && sig.inputs.iter().any(|a| matches!(a, FnArg::Typed(t) if matches!(&*t.ty, Type::Reference(r) if r.mutability.is_some())));
    let mut k_ty = String::new();
    let mut params = String::new();
    let mut ptys = vec![];
    let mut ret_tys: Vec<String> = vec![];
    for a in &sig.inputs {
        match a {
            FnArg::Receiver(r) => {
                let (k, t) = self_k.clone().ok_or("method of an unknown self type")?;
                let returned = matches!(k, K::Local(_)) && r.reference.is_some() && r.mutability.is_some();
                if matches!(k, K::Local(_)) && !returned {
                    return Err("visitor method that does not take `&mut self`".into());
                }
                write!(params, " (self : {t})").unwrap();
                x.vars.insert("self".into(), (k, t.clone(), returned));
                if returned {
                    x.emit("let mut self := self".into());
                    x.ret_extra.push("self".into());
                    ret_tys.push(t);
                }
            }
            FnArg::Typed(t) => {
                let n = match &*t.pat { Pat::Ident(id) if id.by_ref.is_none() => id.ident.to_string(), _ => return Err("parameter pattern".into()) };
                let (k, lt) = ety(&t.ty, locals)?;
                let by_mut_ref = matches!(&*t.ty, Type::Reference(r) if r.mutability.is_some());
                let mutable = by_mut_ref || matches!(&*t.pat, Pat::Ident(id) if id.mutability.is_some());
                write!(params, " ({n} : {lt})").unwrap();
                ptys.push(lt.clone());
                x.vars.insert(n.clone(), (k.clone(), lt.clone(), mutable));
                if collector && by_mut_ref {
                    if k != K::Vec || !k_ty.is_empty() {
                        return Err("collector with a `&mut` parameter other than its one vector".into());
                    }
                    k_ty = lt;
                    continue;
                }
                if mutable {
                    x.emit(format!("let mut {n} := {n}"));
                }
                if by_mut_ref {
                    x.ret_extra.push(n);
                    ret_tys.push(lt);
                }
            }
        }
    }
    if collector {
        // exactly: `for i in lo..hi { .. }` and the tail `Ok(())`
        let stmts: Vec<&Stmt> = block.stmts.iter().filter(|s| !matches!(s, Stmt::Item(Item::Use(_)))).collect();
        let ok_tail = |s: &Stmt| matches!(s, Stmt::Expr(Expr::Call(c), None) if matches!(&*c.func, Expr::Path(p) if segs(&p.path) == ["Ok"]) && c.args.len() == 1 && matches!(&c.args[0], Expr::Tuple(t) if t.elems.is_empty()));
        match stmts.as_slice() {
            [Stmt::Expr(Expr::ForLoop(fl), _), tail] if ok_tail(tail) && fl.label.is_none() && cfg_on(&fl.attrs) => {
                x.k_loop = true;
                x.for_loop(fl)?;
            }
            _ => return Err("collector whose body is not one `for` loop and `Ok(())`".into()),
        }
        let mut text = String::new();
        for a in &x.aux {
            text += a;
            text.push('\n');
        }
        writeln!(text, "def {lean_name} {TPARAMS}{params} : Rs.X.K W {} {k_ty} :=", x.err_ty()).unwrap();
        text += &x.lines.join("\n");
        text.push('\n');
        return Ok((text, EInfo { err: ek, params: ptys, lean: lean_name.to_string(), collector: true }));
    }
    x.block(block)?;
    let ret_ty = if ret_tys.is_empty() { "Unit".to_string() } else { format!("(Unit × {})", ret_tys.join(" × ")) };
    let mut text = String::new();
    for a in &x.aux {
        text += a;
        text.push('\n');
    }
    writeln!(text, "def {lean_name} {TPARAMS}{params} : Rs.X W {} {ret_ty} := do", x.err_ty()).unwrap();
    text += &x.lines.join("\n");
    text.push('\n');
    Ok((text, EInfo { err: ek, params: ptys, lean: lean_name.to_string(), collector: false }))
}

pub fn translate_efn(all: &[&Item], name: &str) -> R<(String, String, usize, usize)> {
    let (sig, block, ty, toks, (l0, l1)) = find_fn(all, name).ok_or("not found")?;
    let lean_name = match &ty { Some(t) => format!("Gen.{t}.{}", sig.ident), None => format!("Gen.{name}") };
    let mut text = String::new();
    // structures and visitor impls declared inside the body
    let mut locals: HashMap<String, (String, Vec<(K, String)>)> = HashMap::new();
    for s in &block.stmts {
        if let Stmt::Item(Item::Struct(st)) = s {
            if !cfg_on(&st.attrs) { continue; }
            let sn = st.ident.to_string();
            let ln = format!("{lean_name}.{sn}");
            let fields = match &st.fields {
                Fields::Unnamed(u) => u.unnamed.iter().map(|f| ety(&f.ty, &locals)).collect::<R<Vec<_>>>()?,
                _ => return Err("local structure that is not a tuple structure".into()),
            };
            writeln!(text, "structure {ln} (P : Type) where").unwrap();
            for (i, (_, t)) in fields.iter().enumerate() {
                writeln!(text, "  _{i} : {t}").unwrap();
            }
            text.push('\n');
            locals.insert(sn, (ln, fields));
        }
    }
    for s in &block.stmts {
        if let Stmt::Item(Item::Impl(im)) = s {
            if !cfg_on(&im.attrs) { continue; }
            let tn = match &*im.self_ty { Type::Path(p) => path_last(&p.path), _ => return Err("local impl".into()) };
            let (ln, _) = locals.get(&tn).cloned().ok_or("impl of a type that is not local")?;
            match &im.trait_ {
                Some((_, p, _)) if path_last(p) == "ZipStreamVisitor" => {}
                _ => return Err("local impl of another trait".into()),
            }
            for ii in &im.items {
                match ii {
                    ImplItem::Fn(f) if cfg_on(&f.attrs) => {
                        if !self_writes_follow_tries(&f.block) {
                            return Err(format!("{tn}::{}: a write to the visitor before the last `?`", f.sig.ident));
                        }
                        let (t, _) = translate_one(&format!("{ln}.{}", f.sig.ident), &f.sig, &f.block, Some((K::Local(tn.clone()), format!("({ln} P)"))), &locals).map_err(|e| format!("{tn}::{}: {e}", f.sig.ident))?;
                        text += &t;
                        text.push('\n');
                    }
                    ImplItem::Fn(_) => {}
                    _ => return Err("local impl item".into()),
                }
            }
        }
    }
    let self_k = match ty.as_deref() {
        Some("ZipArchive") => Some((K::Src, "Rs.SrcOps W Gen.ZipFile E".to_string())),
        Some("ZipStreamReader") => {
            // the visitor handed to `self.visit`: the one local structure
            if locals.len() != 1 {
                return Err("streaming method without exactly one local visitor structure".into());
            }
            let ln = locals.values().next().unwrap().0.clone();
            Some((K::Stream, format!("Rs.StreamOps W Gen.ZipFile Gen.ZipStreamFileMetadata E ({ln} P)")))
        }
        Some(_) => return Err("method of this type".into()),
        None => None,
    };
    let (t, info) = translate_one(&lean_name, sig, block, self_k, &locals)?;
    text += &t;
    EFNS.with(|x| x.borrow_mut().insert(sig.ident.to_string(), info));
    Ok((text, tokens_hash(&toks), l0, l1))
}
