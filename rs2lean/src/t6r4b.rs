//! ENTRY mode (tier T6, helper t6r4): item kinds `denum` / `dstruct` / `dfn` - the `Read` implementations of the
//! entry handle (`CryptoReader`, `ZipFileReader`, `ZipFile` of src/read.rs) over the LAYER translation's structures.
//! Conventions and the meaning of every construct: `lean/ZipVerif/Basic/RsE.lean`.  The generated declarations
//! live under `Gen.E.` (the READ-mode translation of the same enums over symbolic layer records is `Gen.`).
use super::*;
use std::cell::RefCell;

#[derive(Clone, PartialEq, Debug)]
enum Ty {
    /// `io::Take<&mut dyn Read>`
    T,
    /// a structure of the LAYER translation, with its reader argument
    Gen(String, Box<Ty>),
    /// an external decoder / BufReader over a reader
    Dec(&'static str, Box<Ty>),
    /// an enum / structure of this module
    E(String),
    Opt(Box<Ty>),
    /// anything else, by its Lean name
    Plain(String),
    Bytes,
    U64,
}

impl Ty {
    fn lean(&self) -> String {
        match self {
            Ty::T => "T".into(),
            Ty::Gen(n, a) => format!("(Gen.{n} {})", a.lean()),
            Ty::Dec(k, a) => format!("(Rs.E.Dec Rs.E.DecKind.{k} {})", a.lean()),
            Ty::E(n) => format!("(Gen.E.{n} T)"),
            Ty::Opt(a) => format!("(Option {})", a.lean()),
            Ty::Plain(s) => s.clone(),
            Ty::Bytes => "Bytes".into(),
            Ty::U64 => "UInt64".into(),
        }
    }
}

#[derive(Clone, Debug)]
struct Variant {
    name: String,
    /// (field name for struct-like variants, type)
    fields: Vec<(Option<String>, Ty)>,
}

thread_local! {
    static ENUMS: RefCell<HashMap<String, Vec<Variant>>> = RefCell::new(HashMap::new());
    static STRUCTS: RefCell<HashMap<String, Vec<(String, Ty)>>> = RefCell::new(HashMap::new());
    /// "Type::method" → (returns a value besides the result?, takes buf, needs fuel, needs mk)
    static DFNS: RefCell<HashMap<String, DInfo>> = RefCell::new(HashMap::new());
}

#[derive(Clone, Debug)]
struct DInfo {
    buf: bool,
    fuel: bool,
    mk: bool,
    /// `Some(field)`: the method returns `&mut self.field` (a place) instead of a result
    place: Option<String>,
}

fn segs(p: &Path) -> Vec<String> {
    p.segments.iter().map(|s| s.ident.to_string()).collect()
}

fn ty_args(seg: &PathSegment) -> Vec<&Type> {
    match &seg.arguments {
        PathArguments::AngleBracketed(a) => a.args.iter().filter_map(|g| if let GenericArgument::Type(t) = g { Some(t) } else { None }).collect(),
        _ => vec![],
    }
}

fn dty(t: &Type) -> R<Ty> {
    match t {
        Type::Reference(r) => dty(&r.elem),
        Type::Paren(p) => dty(&p.elem),
        Type::Slice(s) if matches!(&*s.elem, Type::Path(p) if p.path.is_ident("u8")) => Ok(Ty::Bytes),
        Type::Path(p) => {
            let last = p.path.segments.last().ok_or("empty path")?;
            let name = last.ident.to_string();
            let args = ty_args(last);
            match (name.as_str(), args.len()) {
                ("Take", 1) => Ok(Ty::T),
                ("ZipCryptoReaderValid", 1) | ("AesReaderValid", 1) | ("Crc32Reader", 1) => Ok(Ty::Gen(name, Box::new(dty(args[0])?))),
                ("DeflateDecoder", 1) => Ok(Ty::Dec("deflate", Box::new(dty(args[0])?))),
                ("BzDecoder", 1) => Ok(Ty::Dec("bzip2", Box::new(dty(args[0])?))),
                ("ZstdDecoder", 1) => Ok(Ty::Dec("zstd", Box::new(dty(args[0])?))),
                ("BufReader", 1) => Ok(Ty::Dec("bufreader", Box::new(dty(args[0])?))),
                ("Option", 1) => Ok(Ty::Opt(Box::new(dty(args[0])?))),
                ("Cow", 1) => Ok(Ty::Plain("(Rs.Cow Gen.ZipFileData)".into())),
                ("AesVendorVersion", 0) => Ok(Ty::Plain("Gen.AesVendorVersion".into())),
                ("usize", 0) | ("u64", 0) => Ok(Ty::U64),
                (n, 0) if ENUMS.with(|e| e.borrow().contains_key(n)) || STRUCTS.with(|s| s.borrow().contains_key(n)) => Ok(Ty::E(n.to_string())),
                _ => Err(format!("type `{name}`")),
            }
        }
        _ => Err("type".into()),
    }
}

const EPARAMS: &str = "{T : Type} [Rs.Read T]";

pub fn translate_denum(all: &[&Item], name: &str) -> R<(String, String, usize, usize)> {
    for it in all {
        if let Item::Enum(e) = it {
            if e.ident != name || !cfg_on(&e.attrs) { continue; }
            // registered first: a variant may mention the enum's siblings only
            let mut vs = vec![];
            let mut s = format!("inductive Gen.E.{name} (T : Type) where\n");
            for v in &e.variants {
                if !cfg_on(&v.attrs) { continue; }
                let fields: Vec<(Option<String>, Ty)> = match &v.fields {
                    Fields::Unit => vec![],
                    Fields::Unnamed(u) => u.unnamed.iter().map(|f| dty(&f.ty).map(|t| (None, t))).collect::<R<Vec<_>>>()?,
                    Fields::Named(n) => n.named.iter().map(|f| dty(&f.ty).map(|t| (Some(f.ident.as_ref().unwrap().to_string()), t))).collect::<R<Vec<_>>>()?,
                };
                let binders: Vec<String> = fields.iter().enumerate().map(|(i, (n, t))| format!("({} : {})", n.clone().unwrap_or(format!("a{i}")), t.lean())).collect();
                writeln!(s, "  | {} {}", v.ident, binders.join(" ")).unwrap();
                vs.push(Variant { name: v.ident.to_string(), fields });
            }
            ENUMS.with(|x| x.borrow_mut().insert(name.to_string(), vs));
            return Ok((s, tokens_hash(&quote::quote!(#e)), e.span().start().line, e.span().end().line));
        }
    }
    Err("not found".into())
}

pub fn translate_dstruct(all: &[&Item], name: &str) -> R<(String, String, usize, usize)> {
    for it in all {
        if let Item::Struct(st) = it {
            if st.ident != name || !cfg_on(&st.attrs) { continue; }
            let mut fs = vec![];
            let mut s = format!("structure Gen.E.{name} (T : Type) where\n");
            if let Fields::Named(n) = &st.fields {
                for f in &n.named {
                    if !cfg_on(&f.attrs) { continue; }
                    let t = dty(&f.ty)?;
                    let id = f.ident.as_ref().unwrap().to_string();
                    writeln!(s, "  {id} : {}", t.lean()).unwrap();
                    fs.push((id, t));
                }
            } else {
                return Err("tuple structure".into());
            }
            STRUCTS.with(|x| x.borrow_mut().insert(name.to_string(), fs));
            return Ok((s, tokens_hash(&quote::quote!(#st)), st.span().start().line, st.span().end().line));
        }
    }
    Err("not found".into())
}

/// how a changed alias is written back into the value it lives in
#[derive(Clone, Debug)]
enum Parent {
    /// bound by an arm `Ctor(fields…)` of a match on `parent`
    Variant { parent: String, ctor: String, fields: Vec<String> },
    /// `root.f1.f2…`
    Path { root: String, fields: Vec<String> },
}

struct D<'a> {
    asts: &'a BTreeMap<String, syn::File>,
    self_ty: String,
    lines: Vec<String>,
    indent: usize,
    n: usize,
    vars: HashMap<String, Ty>,
    parents: HashMap<String, Parent>,
    /// what every exit returns after the outcome
    rets: Vec<String>,
    uses_fuel: bool,
    uses_mk: bool,
    /// instances `impl Read for X` of layer structures needed by `io::copy`
    insts: Vec<String>,
    /// the method returns a place
    place_ret: bool,
}

fn strip(e: &Expr) -> &Expr {
    match e {
        Expr::Reference(r) => strip(&r.expr),
        Expr::Paren(p) => strip(&p.expr),
        _ => e,
    }
}

impl<'a> D<'a> {
    fn emit(&mut self, s: String) {
        self.lines.push(format!("{}{}", "  ".repeat(self.indent), s));
    }
    fn fresh(&mut self) -> String {
        self.n += 1;
        format!("t{}", self.n)
    }
    fn exit(&self, outcome: &str) -> String {
        let mut xs = vec![outcome.to_string()];
        xs.extend(self.rets.iter().cloned());
        format!("return ({})", xs.join(", "))
    }
    fn panic_exit(&self) -> String {
        if self.place_ret { "return none".into() } else { self.exit("Rs.IoRes.panic") }
    }

    /// rebuild everything `v` lives in, up to `self`
    fn write_back(&mut self, v: &str) {
        let mut cur = v.to_string();
        while let Some(p) = self.parents.get(&cur).cloned() {
            match p {
                Parent::Variant { parent, ctor, fields } => {
                    self.emit(format!("{parent} := {ctor} {}", fields.join(" ")));
                    cur = parent;
                }
                Parent::Path { root, fields } => {
                    // { root with f1 := { root.f1 with f2 := cur } }
                    let mut val = cur.clone();
                    for i in (0..fields.len()).rev() {
                        let prefix = std::iter::once(root.clone()).chain(fields[..i].iter().cloned()).collect::<Vec<_>>().join(".");
                        val = format!("{{ {prefix} with {} := {val} }}", fields[i]);
                    }
                    self.emit(format!("{root} := {val}"));
                    cur = root;
                }
            }
        }
    }

    /// the field a translated `get_mut` names (`&mut self.F`), looked up in the source
    fn get_mut_field(&self, st: &str) -> R<String> {
        for ast in self.asts.values() {
            let all: Vec<&Item> = ast.items.iter().collect();
            if let Some((_, f)) = t6l::find_method(&all, st, "get_mut") {
                if let [Stmt::Expr(Expr::Reference(r), None)] = f.block.stmts.as_slice() {
                    if r.mutability.is_some() {
                        if let Expr::Field(fl) = &*r.expr {
                            if matches!(&*fl.base, Expr::Path(p) if p.path.is_ident("self")) {
                                if let Member::Named(id) = &fl.member {
                                    return Ok(id.to_string());
                                }
                            }
                        }
                    }
                }
                return Err(format!("`{st}::get_mut` is not `&mut self.field`"));
            }
        }
        Err(format!("`{st}::get_mut` not found"))
    }

    /// a place expression: (root variable, fields, type)
    fn place(&mut self, e: &Expr) -> R<(String, Vec<String>, Ty)> {
        match strip(e) {
            Expr::Path(p) if p.path.segments.len() == 1 => {
                let v = p.path.segments[0].ident.to_string();
                let t = self.vars.get(&v).cloned().ok_or_else(|| format!("unknown variable `{v}`"))?;
                Ok((v, vec![], t))
            }
            Expr::Field(f) => {
                let (root, mut fields, t) = self.place(&f.base)?;
                let fname = match &f.member { Member::Named(id) => id.to_string(), _ => return Err("tuple field".into()) };
                let ft = match &t {
                    Ty::E(s) => STRUCTS.with(|x| x.borrow().get(s).and_then(|fs| fs.iter().find(|(n, _)| *n == fname).map(|(_, t)| t.clone()))).ok_or("field")?,
                    _ => return Err("field of this type".into()),
                };
                fields.push(fname);
                Ok((root, fields, ft))
            }
            Expr::MethodCall(m) if m.method == "get_mut" && m.args.is_empty() => {
                let (root, mut fields, t) = self.place(&m.receiver)?;
                match t {
                    Ty::Gen(st, arg) => {
                        fields.push(self.get_mut_field(&st)?);
                        Ok((root, fields, *arg))
                    }
                    Ty::Dec(_, arg) => {
                        fields.push("inner".into());
                        Ok((root, fields, *arg))
                    }
                    _ => Err("get_mut on this type".into()),
                }
            }
            // a `&mut self` method of this module that returns `&mut self.field`: its effect, then the place
            Expr::MethodCall(m) if m.args.is_empty() => {
                let (root, fields, t) = self.place(&m.receiver)?;
                let tn = match &t { Ty::E(s) => s.clone(), _ => return Err(format!("method `.{}` on this type", m.method)) };
                let info = DFNS.with(|x| x.borrow().get(&format!("{tn}::{}", m.method)).cloned()).ok_or_else(|| format!("method `{tn}::{}`", m.method))?;
                let fld = info.place.clone().ok_or("method that does not return a place")?;
                if !fields.is_empty() {
                    return Err("place method on a nested place".into());
                }
                if info.mk { self.uses_mk = true; }
                let t1 = self.fresh();
                self.emit(format!("let some {t1} := Gen.E.{tn}.{}{} {root} | {}", m.method, if info.mk { " mk" } else { "" }, self.panic_exit()));
                self.emit(format!("{root} := {t1}"));
                self.write_back(&root);
                let ft = STRUCTS.with(|x| x.borrow().get(&tn).and_then(|fs| fs.iter().find(|(n, _)| *n == fld).map(|(_, t)| t.clone()))).ok_or("field")?;
                Ok((root, vec![fld], ft))
            }
            _ => Err(format!("place `{}`", quote::quote!(#e))),
        }
    }

    /// bind a place to a mutable local that aliases it
    fn alias(&mut self, name: &str, root: String, fields: Vec<String>, t: Ty) {
        if fields.is_empty() && root == name {
            return;
        }
        let path = std::iter::once(root.clone()).chain(fields.iter().cloned()).collect::<Vec<_>>().join(".");
        self.emit(format!("let mut {name} := {path}"));
        self.vars.insert(name.to_string(), t);
        if fields.is_empty() {
            // a plain rename: writes go to the root's own parent through a path of length 0
            self.parents.insert(name.to_string(), Parent::Path { root, fields: vec![] });
        } else {
            self.parents.insert(name.to_string(), Parent::Path { root, fields });
        }
    }

    /// the `read` function for a value of type `t`
    fn read_fn(&self, t: &Ty) -> R<String> {
        match t {
            Ty::T | Ty::Dec(_, _) => Ok("Rs.L.read".into()),
            Ty::Gen(s, _) => Ok(format!("Gen.{s}.read")),
            Ty::E(s) => {
                DFNS.with(|x| x.borrow().get(&format!("{s}::read")).cloned()).ok_or_else(|| format!("`{s}::read` is not translated"))?;
                Ok(format!("Gen.E.{s}.read"))
            }
            _ => Err("read on this type".into()),
        }
    }

    /// a call `place.m(args)` returning `io::Result<_>`; the outcome as an atom of type `Rs.IoRes _`
    fn call(&mut self, e: &Expr) -> R<String> {
        match e {
            Expr::MethodCall(m) => {
                let name = m.method.to_string();
                let (root, fields, t) = self.place(&m.receiver)?;
                // work on a local alias of the place
                let x = if fields.is_empty() { root.clone() } else {
                    let x = self.fresh();
                    self.alias(&x, root, fields, t.clone());
                    x
                };
                if name == "read" && m.args.len() == 1 {
                    let b = match strip(&m.args[0]) { Expr::Path(p) if p.path.is_ident("buf") => "buf", _ => return Err("read argument".into()) };
                    let f = self.read_fn(&t)?;
                    let (t1, t2, t3) = (self.fresh(), self.fresh(), self.fresh());
                    let extra = match &t {
                        Ty::E(s) => {
                            let info = DFNS.with(|d| d.borrow().get(&format!("{s}::read")).cloned()).unwrap();
                            if info.fuel { self.uses_fuel = true; }
                            if info.mk { self.uses_mk = true; }
                            format!("{}{}", if info.mk { " mk" } else { "" }, if info.fuel { " fuel" } else { "" })
                        }
                        _ => String::new(),
                    };
                    self.emit(format!("let ({t1}, {t2}, {t3}) := {f}{extra} {x} {b}"));
                    self.emit(format!("{x} := {t2}"));
                    self.emit(format!("{b} := {t3}"));
                    self.write_back(&x);
                    return Ok(t1);
                }
                if let Ty::E(s) = &t {
                    if m.args.is_empty() {
                        let info = DFNS.with(|d| d.borrow().get(&format!("{s}::{name}")).cloned()).ok_or_else(|| format!("method `{s}::{name}`"))?;
                        if info.place.is_some() || info.buf {
                            return Err(format!("call of `{s}::{name}`"));
                        }
                        if info.fuel { self.uses_fuel = true; }
                        let (t1, t2) = (self.fresh(), self.fresh());
                        self.emit(format!("let ({t1}, {t2}) := Gen.E.{s}.{name}{} {x}", if info.fuel { " fuel" } else { "" }));
                        self.emit(format!("{x} := {t2}"));
                        self.write_back(&x);
                        return Ok(t1);
                    }
                }
                Err(format!("call `.{name}(..)`"))
            }
            Expr::Call(c) => {
                let p = match &*c.func { Expr::Path(p) => segs(&p.path), _ => return Err("callee".into()) };
                if p == ["io", "copy"] && c.args.len() == 2 {
                    // `io::copy(reader, &mut io::sink())`
                    let sink_ok = matches!(strip(&c.args[1]), Expr::Call(sc) if sc.args.is_empty() && matches!(&*sc.func, Expr::Path(sp) if segs(&sp.path) == ["io", "sink"]));
                    if !sink_ok {
                        return Err("io::copy into something that is not io::sink()".into());
                    }
                    let (root, fields, t) = self.place(&c.args[0])?;
                    if !fields.is_empty() {
                        return Err("io::copy source".into());
                    }
                    match &t {
                        Ty::Gen(s, a) => {
                            // `impl Read for S` must exist in the source
                            let mut found = false;
                            for ast in self.asts.values() {
                                for it in &ast.items {
                                    if let Item::Impl(im) = it {
                                        if let (Some((_, tp, _)), Type::Path(sp)) = (&im.trait_, &*im.self_ty) {
                                            if path_last(tp) == "Read" && path_last(&sp.path) == *s { found = true; }
                                        }
                                    }
                                }
                            }
                            if !found {
                                return Err(format!("no `impl Read for {s}`"));
                            }
                            let inst = format!("@[instance_reducible] instance Gen.E.read_{s} {{R : Type}} [Rs.Read R] : Rs.Read (Gen.{s} R) := Rs.E.asRead Gen.{s}.read");
                            if !self.insts.contains(&inst) { self.insts.push(inst); }
                            let _ = a;
                        }
                        _ => return Err("io::copy from this type".into()),
                    }
                    self.uses_fuel = true;
                    let (t1, t2) = (self.fresh(), self.fresh());
                    self.emit(format!("let ({t1}, {t2}) := Rs.E.copyToSink fuel {root} 0"));
                    self.emit(format!("{root} := {t2}"));
                    self.write_back(&root);
                    return Ok(t1);
                }
                Err(format!("call `{}`", p.join("::")))
            }
            _ => Err("call".into()),
        }
    }

    /// `call?`: the value, or the failure exit
    fn try_(&mut self, e: &Expr) -> R<String> {
        let r = self.call(e)?;
        let t = self.fresh();
        self.emit(format!("let {t} ← match {r} with"));
        self.emit("  | .ok v => pure v".into());
        self.emit(format!("  | .err e => {}", self.exit("Rs.IoRes.err e")));
        self.emit(format!("  | .panic => {}", self.exit("Rs.IoRes.panic")));
        Ok(t)
    }

    /// a Boolean condition
    fn cond(&mut self, e: &Expr) -> R<String> {
        match e {
            Expr::Paren(p) => self.cond(&p.expr),
            Expr::Binary(b) => match b.op {
                BinOp::And(_) => Ok(format!("({} && {})", self.cond(&b.left)?, self.cond(&b.right)?)),
                BinOp::Eq(_) => {
                    let l = match &*b.left { Expr::Path(p) if p.path.segments.len() == 1 => p.path.segments[0].ident.to_string(), _ => return Err("comparison".into()) };
                    if self.vars.get(&l) != Some(&Ty::U64) {
                        return Err("comparison of a non-integer".into());
                    }
                    let r = match &*b.right { Expr::Lit(ExprLit { lit: Lit::Int(i), .. }) => lit_str(i).0, _ => return Err("comparison".into()) };
                    Ok(format!("({l} == {r})"))
                }
                _ => Err("operator".into()),
            },
            Expr::Unary(u) if matches!(u.op, UnOp::Not(_)) => Ok(format!("(!{})", self.cond(&u.expr)?)),
            Expr::MethodCall(m) if m.method == "is_empty" && m.args.is_empty() => {
                match strip(&m.receiver) {
                    Expr::Path(p) if p.path.is_ident("buf") => Ok("(Rs.isEmpty buf)".into()),
                    _ => Err("is_empty receiver".into()),
                }
            }
            _ => Err("condition".into()),
        }
    }

    /// a pattern `Enum::V(a, b)` / `Enum::V { f, .. }` / `Enum::V` / `_` against a value of enum type `en`: the Lean
    /// pattern and the bindings (name, type) in constructor order
    fn pat(&self, p: &Pat, en: &str) -> R<(String, Option<(String, Vec<(String, Ty)>)>)> {
        let variants = ENUMS.with(|x| x.borrow().get(en).cloned()).ok_or("match on a type that is not a translated enum")?;
        let find = |path: &Path| -> R<Variant> {
            let s = segs(path);
            if s.len() != 2 || s[0] != en { return Err(format!("pattern `{}`", s.join("::"))); }
            variants.iter().find(|v| v.name == s[1]).cloned().ok_or_else(|| format!("variant `{}` (disabled by cfg?)", s[1]))
        };
        match p {
            Pat::Wild(_) => Ok(("_".into(), None)),
            Pat::Path(pp) => {
                let v = find(&pp.path)?;
                if !v.fields.is_empty() { return Err("unit pattern of a variant with fields".into()); }
                Ok((format!(".{}", v.name), None))
            }
            Pat::Ident(id) if id.subpat.is_none() => Err(format!("binding pattern `{}`", id.ident)),
            Pat::TupleStruct(ts) => {
                let v = find(&ts.path)?;
                if v.fields.len() != ts.elems.len() { return Err("pattern arity".into()); }
                let mut names = vec![];
                for (i, el) in ts.elems.iter().enumerate() {
                    match el {
                        Pat::Ident(id) if id.subpat.is_none() => names.push((id.ident.to_string(), v.fields[i].1.clone())),
                        _ => return Err("sub-pattern".into()),
                    }
                }
                let ns: Vec<String> = names.iter().map(|(n, _)| n.clone()).collect();
                Ok((format!(".{} {}", v.name, ns.join(" ")), Some((v.name.clone(), names))))
            }
            Pat::Struct(ps) => {
                let v = find(&ps.path)?;
                let mut names = vec![];
                for (fname, ft) in &v.fields {
                    let fname = fname.clone().ok_or("struct pattern of a tuple variant")?;
                    // a field the pattern renames (`reader: r`) is bound under the new name; the others (`..`) under their own
                    let mut bound = fname.clone();
                    for fp in &ps.fields {
                        if let Member::Named(id) = &fp.member {
                            if *id == fname {
                                match &*fp.pat { Pat::Ident(pi) if pi.subpat.is_none() => bound = pi.ident.to_string(), _ => return Err("sub-pattern".into()) }
                            }
                        }
                    }
                    names.push((bound, ft.clone()));
                }
                if ps.rest.is_none() && ps.fields.len() != v.fields.len() { return Err("struct pattern".into()); }
                let ns: Vec<String> = names.iter().map(|(n, _)| n.clone()).collect();
                Ok((format!(".{} {}", v.name, ns.join(" ")), Some((v.name.clone(), names))))
            }
            _ => Err("pattern".into()),
        }
    }

    /// open an arm: the pattern line, the bound variables as mutable aliases of `scrut`'s payload
    fn open_arm(&mut self, p: &Pat, en: &str, scrut: &str) -> R<()> {
        let (lp, binds) = self.pat(p, en)?;
        self.emit(format!("| {lp} =>"));
        self.indent += 1;
        if let Some((vname, names)) = binds {
            let fields: Vec<String> = names.iter().map(|(n, _)| n.clone()).collect();
            for (n, t) in names {
                self.emit(format!("let mut {n} := {n}"));
                self.vars.insert(n.clone(), t);
                self.parents.insert(n, Parent::Variant { parent: scrut.to_string(), ctor: format!("Gen.E.{en}.{vname}"), fields: fields.clone() });
            }
        }
        Ok(())
    }

    /// the statements `stmts[i..]`
    fn stmts(&mut self, stmts: &[Stmt]) -> R<()> {
        let Some((first, rest)) = stmts.split_first() else { return Ok(()) };
        match first {
            Stmt::Local(l) => {
                if !cfg_on(&l.attrs) { return self.stmts(rest); }
                let v = match &l.pat { Pat::Ident(id) if id.subpat.is_none() => id.ident.to_string(), _ => return Err("let pattern".into()) };
                let init = &l.init.as_ref().ok_or("let without a value")?.expr;
                match &**init {
                    // `let p = match self { arms => place, _ => return Ok(()) };`: the rest continues inside each arm
                    Expr::Match(m) => {
                        let (root, fields, t) = self.place(&m.expr)?;
                        if !fields.is_empty() { return Err("match on a nested place".into()); }
                        let en = match &t { Ty::E(s) => s.clone(), _ => return Err("match on this type".into()) };
                        self.emit(format!("match {root} with"));
                        for arm in &m.arms {
                            if !cfg_on(&arm.attrs) { continue; }
                            if arm.guard.is_some() { return Err("guard".into()); }
                            let saved = (self.vars.clone(), self.parents.clone(), self.indent);
                            self.open_arm(&arm.pat, &en, &root)?;
                            match &*arm.body {
                                Expr::Return(r) => self.ret(r.expr.as_deref())?,
                                body => {
                                    let (r2, f2, t2) = self.place(body)?;
                                    self.alias(&v, r2, f2, t2);
                                    self.stmts(rest)?;
                                }
                            }
                            self.vars = saved.0;
                            self.parents = saved.1;
                            self.indent = saved.2;
                        }
                        Ok(())
                    }
                    Expr::Try(t) => {
                        let a = self.try_(&t.expr)?;
                        self.emit(format!("let {v} := {a}"));
                        self.vars.insert(v, Ty::U64);
                        self.stmts(rest)
                    }
                    // `let data = &self.data;`
                    Expr::Reference(r) if r.mutability.is_none() => {
                        let (root, fields, _t) = self.place(&r.expr)?;
                        let path = std::iter::once(root).chain(fields).collect::<Vec<_>>().join(".");
                        self.emit(format!("let {v} := {path}"));
                        self.vars.insert(v, Ty::Plain("cow".into()));
                        self.stmts(rest)
                    }
                    // `let x = place.take().expect(msg);`
                    Expr::MethodCall(m) if m.method == "expect" => {
                        if let Expr::MethodCall(tk) = &*m.receiver {
                            if tk.method == "take" && tk.args.is_empty() {
                                let (root, fields, t) = self.place(&tk.receiver)?;
                                let inner = match t { Ty::Opt(i) => *i, _ => return Err("take on a non-option".into()) };
                                if fields.len() != 1 { return Err("take on this place".into()); }
                                let path = format!("{root}.{}", fields[0]);
                                self.emit(format!("let some {v} := {path} | {}", self.panic_exit()));
                                self.emit(format!("{root} := {{ {root} with {} := none }}", fields[0]));
                                self.vars.insert(v, inner);
                                return self.stmts(rest);
                            }
                        }
                        Err("expect".into())
                    }
                    _ => Err("let value".into()),
                }
            }
            Stmt::Expr(e, semi) => {
                if !cfg_on(t6r4_attrs(e)) { return self.stmts(rest); }
                match e {
                    Expr::If(i) => {
                        if i.else_branch.is_some() { return Err("else".into()); }
                        if let Expr::Let(l) = &*i.cond {
                            let (root, fields, t) = self.place(&l.expr)?;
                            let en = match &t { Ty::E(s) => s.clone(), _ => return Err("if let on this type".into()) };
                            // the scrutinee must be a variable the arms can write back to
                            let scrut = if fields.is_empty() { root } else {
                                let x = self.fresh();
                                self.alias(&x, root, fields, t.clone());
                                x
                            };
                            self.emit(format!("match {scrut} with"));
                            let saved = (self.vars.clone(), self.parents.clone(), self.indent);
                            self.open_arm(&l.pat, &en, &scrut)?;
                            self.stmts(&i.then_branch.stmts)?;
                            self.emit("pure ()".into());
                            self.vars = saved.0;
                            self.parents = saved.1;
                            self.indent = saved.2;
                            self.emit("| _ => pure ()".into());
                        } else {
                            let c = self.cond(&i.cond)?;
                            self.emit(format!("if {c} then"));
                            let saved = (self.vars.clone(), self.parents.clone());
                            self.indent += 1;
                            self.stmts(&i.then_branch.stmts)?;
                            self.emit("pure ()".into());
                            self.indent -= 1;
                            self.vars = saved.0;
                            self.parents = saved.1;
                        }
                        self.stmts(rest)
                    }
                    Expr::Try(t) if semi.is_some() => {
                        self.try_(&t.expr)?;
                        self.stmts(rest)
                    }
                    // `place = make_reader(a, b, c)` (the named parameter `mk`)
                    Expr::Assign(a) => {
                        let (root, fields, _t) = self.place(&a.left)?;
                        if fields.len() != 1 { return Err("assignment target".into()); }
                        let c = match &*a.right { Expr::Call(c) => c, _ => return Err("assigned value".into()) };
                        if !matches!(&*c.func, Expr::Path(p) if p.path.is_ident("make_reader")) { return Err("assigned call".into()); }
                        let mut args = vec![];
                        for x in &c.args {
                            args.push(self.value(x)?);
                        }
                        self.uses_mk = true;
                        let t = self.fresh();
                        self.emit(format!("let some {t} := mk {} | {}", args.join(" "), self.panic_exit()));
                        self.emit(format!("{root} := {{ {root} with {} := {t} }}", fields[0]));
                        self.stmts(rest)
                    }
                    // a tail `match self { arms }` whose arms are calls / panics
                    Expr::Match(m) if semi.is_none() && rest.is_empty() => {
                        let (root, fields, t) = self.place(&m.expr)?;
                        if !fields.is_empty() { return Err("match on a nested place".into()); }
                        let en = match &t { Ty::E(s) => s.clone(), _ => return Err("match on this type".into()) };
                        self.emit(format!("match {root} with"));
                        for arm in &m.arms {
                            if !cfg_on(&arm.attrs) { continue; }
                            if arm.guard.is_some() { return Err("guard".into()); }
                            let saved = (self.vars.clone(), self.parents.clone(), self.indent);
                            self.open_arm(&arm.pat, &en, &root)?;
                            self.tail(&arm.body)?;
                            self.vars = saved.0;
                            self.parents = saved.1;
                            self.indent = saved.2;
                        }
                        Ok(())
                    }
                    _ if semi.is_none() && rest.is_empty() => self.tail(e),
                    _ => Err(format!("statement `{}`", quote::quote!(#e))),
                }
            }
            Stmt::Macro(_) | Stmt::Item(_) => Err("statement".into()),
        }
    }

    /// a plain value: `x.f.g` with `Cow` auto-deref, or a variable
    fn value(&mut self, e: &Expr) -> R<String> {
        match strip(e) {
            Expr::Path(p) if p.path.segments.len() == 1 => Ok(p.path.segments[0].ident.to_string()),
            Expr::Field(f) => {
                if let (Expr::Path(p), Member::Named(id)) = (strip(&f.base), &f.member) {
                    if p.path.segments.len() == 1 {
                        let b = p.path.segments[0].ident.to_string();
                        if self.vars.get(&b) == Some(&Ty::Plain("cow".into())) {
                            return Ok(format!("(Rs.Cow.get {b}).{id}"));
                        }
                    }
                }
                Err("field value".into())
            }
            _ => Err("value".into()),
        }
    }

    fn ret(&mut self, e: Option<&Expr>) -> R<()> {
        let e = e.ok_or("return without a value")?;
        self.tail(e)
    }

    /// a tail / returned expression
    fn tail(&mut self, e: &Expr) -> R<()> {
        match e {
            Expr::Macro(m) if m.mac.path.is_ident("panic") => {
                let l = self.panic_exit();
                self.emit(l);
                Ok(())
            }
            Expr::Call(c) if matches!(&*c.func, Expr::Path(p) if p.path.is_ident("Ok")) && c.args.len() == 1 => {
                let v = match &c.args[0] {
                    Expr::Tuple(t) if t.elems.is_empty() => "()".to_string(),
                    Expr::Path(p) if p.path.segments.len() == 1 => p.path.segments[0].ident.to_string(),
                    _ => return Err("Ok(..) argument".into()),
                };
                let l = self.exit(&format!("Rs.IoRes.ok {v}"));
                self.emit(l);
                Ok(())
            }
            // `&mut self.field` of a place-returning method
            Expr::Reference(r) if self.place_ret && r.mutability.is_some() => {
                self.emit("return (some self)".into());
                Ok(())
            }
            Expr::MethodCall(_) | Expr::Call(_) => {
                let r = self.call(e)?;
                let l = self.exit(&r);
                self.emit(l);
                Ok(())
            }
            _ => Err(format!("tail `{}`", quote::quote!(#e))),
        }
    }
}

fn t6r4_attrs(e: &Expr) -> &[Attribute] {
    match e {
        Expr::Try(x) => &x.attrs,
        Expr::If(x) => &x.attrs,
        Expr::Match(x) => &x.attrs,
        Expr::MethodCall(x) => &x.attrs,
        Expr::Call(x) => &x.attrs,
        Expr::Return(x) => &x.attrs,
        _ => &[],
    }
}

pub fn translate_dfn(asts: &BTreeMap<String, syn::File>, all: &[&Item], name: &str) -> R<(String, String, usize, usize)> {
    let (ty, m) = name.split_once("::").ok_or("dfn needs Type::method")?;
    let (im, f) = t6l::find_method(all, ty, m).ok_or("not found")?;
    let is_read_impl = matches!(&im.trait_, Some((_, p, _)) if path_last(p) == "Read");
    let recv = f.sig.inputs.iter().find_map(|a| if let FnArg::Receiver(r) = a { Some(r) } else { None }).ok_or("function without `self`")?;
    if recv.reference.is_none() || recv.mutability.is_none() {
        return Err("not a `&mut self` method".into());
    }
    let self_t = Ty::E(ty.to_string());
    if !ENUMS.with(|x| x.borrow().contains_key(ty)) && !STRUCTS.with(|x| x.borrow().contains_key(ty)) {
        return Err("self type is not translated".into());
    }
    let mut d = D { asts, self_ty: ty.to_string(), lines: vec![], indent: 1, n: 0, vars: HashMap::new(), parents: HashMap::new(), rets: vec!["self".into()], uses_fuel: false, uses_mk: false, insts: vec![], place_ret: false };
    d.vars.insert("self".into(), self_t.clone());
    let mut has_buf = false;
    for a in &f.sig.inputs {
        if let FnArg::Typed(t) = a {
            let n = match &*t.pat { Pat::Ident(id) => id.ident.to_string(), _ => return Err("parameter pattern".into()) };
            let is_buf = n == "buf" && matches!(&*t.ty, Type::Reference(r) if r.mutability.is_some()) && dty(&t.ty)? == Ty::Bytes;
            if !is_buf {
                return Err(format!("parameter `{n}`"));
            }
            has_buf = true;
            d.vars.insert(n.clone(), Ty::Bytes);
            d.rets.push(n);
        }
    }
    // result type: io::Result<usize> / io::Result<()> / a place `&mut Field`
    let res_ty = match &f.sig.output {
        ReturnType::Type(_, t) => match &**t {
            Type::Reference(r) if r.mutability.is_some() => { d.place_ret = true; None }
            Type::Path(p) if segs(&p.path) == ["io", "Result"] => {
                let a = ty_args(p.path.segments.last().unwrap());
                if a.len() != 1 { return Err("result type".into()); }
                Some(match a[0] { Type::Tuple(t) if t.elems.is_empty() => "Unit".to_string(), other => dty(other)?.lean() })
            }
            _ => return Err("result type".into()),
        },
        _ => return Err("no result".into()),
    };
    d.emit("let mut self := self".into());
    if has_buf { d.emit("let mut buf := buf".into()); }
    // the place a place-returning method names
    let place_field = if d.place_ret {
        match f.block.stmts.last() {
            Some(Stmt::Expr(Expr::Reference(r), None)) => match &*r.expr {
                Expr::Field(fl) if matches!(&*fl.base, Expr::Path(p) if p.path.is_ident("self")) => match &fl.member { Member::Named(id) => Some(id.to_string()), _ => None },
                _ => None,
            },
            _ => None,
        }.ok_or("a `&mut` result that is not `&mut self.field`")?.into()
    } else { None::<String> };
    d.stmts(&f.block.stmts)?;
    let _ = &d.self_ty;
    let mut text = String::new();
    for i in &d.insts {
        text += i;
        text += "\n\n";
    }
    let mk = if d.uses_mk { format!(" (mk : Gen.CompressionMethod → UInt32 → {} → Option {})", Ty::E("CryptoReader".into()).lean(), Ty::E("ZipFileReader".into()).lean()) } else { String::new() };
    let fuel = if d.uses_fuel { " (fuel : Nat)" } else { "" };
    let lean_name = format!("Gen.E.{ty}.{m}");
    let sig = match &res_ty {
        None => format!("def {lean_name} {EPARAMS}{mk}{fuel} (self : {}) : Option {} := Id.run do", self_t.lean(), self_t.lean()),
        Some(r) => format!("def {lean_name} {EPARAMS}{mk}{fuel} (self : {}){} : Rs.IoRes {r} × {}{} := Id.run do", self_t.lean(), if has_buf { " (buf : Bytes)" } else { "" }, self_t.lean(), if has_buf { " × Bytes" } else { "" }),
    };
    text += &sig;
    text.push('\n');
    text += &d.lines.join("\n");
    text.push('\n');
    if is_read_impl && m == "read" && !d.uses_fuel && !d.uses_mk {
        writeln!(text, "\n/-- `impl Read for {ty}` -/\n@[instance_reducible] instance Gen.E.read_{ty} {EPARAMS} : Rs.Read {} := Rs.E.asRead Gen.E.{ty}.read", self_t.lean()).unwrap();
    }
    DFNS.with(|x| x.borrow_mut().insert(name.to_string(), DInfo { buf: has_buf, fuel: d.uses_fuel, mk: d.uses_mk, place: place_field }));
    Ok((text, tokens_hash(&quote::quote!(#f)), f.span().start().line, f.span().end().line))
}
