//! Tier T6, STATE-MACHINE mode (`Mode::S`): `&mut self` methods of a structure that owns its sink
//! (`impl ZipWriter` of src/write.rs) as state-passing computations over the model's I/O monad.
//!
//!   item kinds:  `sstruct Name`            the structure (fields of external type get the vocabulary type)
//!                `sfn Type::method`        a method (inherent or of a trait impl) →
//!                     Gen.Type.method (ext : Rs.S.Ext) (self : Gen.Type) (…) : Rs.S Gen.Type (R × Gen.Type)
//!
//! Semantics (mirrored by `ZipVerif/Basic/RsS.lean`):
//!   * `self` is a local `let mut self`; `self.f = v` / `self.f.g = v` are record updates; every failure
//!     site (`Rs.S.err`, `Rs.S.lift`, `Rs.S.io`, `Rs.S.ofResult`) is handed the current `self`, so an
//!     `Err` carries the object as the method left it;
//!   * control flow in result position (`match`, `if`, blocks) is translated at statement level, every
//!     leaf ends in `return (value, self)` or a failing action;
//!   * a `&mut` alias of a part of `self` is a local copy written back after every assignment through it
//!     (`let file = self.files.last_mut().unwrap()` → `Rs.last` / `Rs.setLast`);
//!   * `let writer = self.inner.get_plain()` makes `writer` the bare sink: `writer.seek/stream_position/
//!     write_all/write_uNN(..)?` and translated serialisers called with it are device operations (`Rs.S.io`,
//!     `Rs.S.runW`);
//!   * the external compressor stack has a NAMED vocabulary (`ref_mut`, `is_closed`, `get_plain`,
//!     `switch_to`, `w.write(buf)` through the current encoder, `mem::replace(&mut self.inner, Closed)`, …)
//!     whose meaning is fixed once in `Basic/RsS.lean` (the model's treatment).
//! Anything else makes the item `untranslated`.
use super::*;

#[derive(Clone, Debug, PartialEq)]
pub enum Alias {
    /// `Some(ref mut w)` of `self.inner.ref_mut()`: the current encoder as `&mut dyn Write`
    Encoder,
    /// `self.inner.get_plain()`: the bare sink
    Plain,
    /// `self.FIELD.last_mut().unwrap()`: a copy of the last element of `self.FIELD`, written back after
    /// every assignment through it
    LastOf(String),
    /// `let x = PLACE.get_mut()`: `*x` is the place `PLACE` (a field chain)
    Place(Vec<String>),
}

#[derive(Default)]
pub struct SState {
    pub alias: HashMap<String, Alias>,
    /// the method returns a `Result`
    pub is_result: bool,
    /// type parameters of the impl that stand for the sink (`W: Write + Seek`): `Unit`, the device is implicit
    pub sink_tys: HashSet<String>,
    /// (helper t6w4) the method uses the wall-clock parameter `now`
    pub needs_now: bool,
}

/// Lean types of the external types that occur in the fields of a state structure.
pub fn s_ty(tr: &Tr, name: &str, args: &[&Type]) -> Option<R<String>> {
    if tr.s.sink_tys.contains(name) {
        return Some(Ok("Unit".into()));
    }
    if let Some(r) = tr.c_ty(name) {
        return Some(r);
    }
    match name {
        "GenericZipWriter" => Some(Ok("Rs.S.Inner".into())),
        "Hasher" => Some(Ok("Rs.Hasher".into())),
        // a `ZipCryptoKeys` value is represented by the password it was derived from (the model's treatment)
        "ZipCryptoKeys" => Some(Ok("Bytes".into())),
        "Vec" if args.len() == 1 => match tr.ty(args[0]) {
            Ok(e) if e != "UInt8" => Some(Ok(format!("(List {e})"))),
            _ => None,
        },
        _ => None,
    }
}

fn sink_params(g: &Generics) -> HashSet<String> {
    let mut out = HashSet::new();
    for p in &g.params {
        if let GenericParam::Type(tp) = p {
            let io = tp.bounds.iter().any(|b| matches!(b, TypeParamBound::Trait(tb) if matches!(path_last(&tb.path).as_str(), "Write" | "Read" | "Seek")));
            if io {
                out.insert(tp.ident.to_string());
            }
        }
    }
    out
}

fn find_sfn_impl<'a>(all: &[&'a Item], ty: &str, m: &str) -> Option<&'a ItemImpl> {
    for it in all {
        if let Item::Impl(im) = it {
            if !cfg_on(&im.attrs) {
                continue;
            }
            if let Type::Path(p) = &*im.self_ty {
                if path_last(&p.path) != ty {
                    continue;
                }
                for ii in &im.items {
                    if let ImplItem::Fn(f) = ii {
                        if f.sig.ident == m && cfg_on(&f.attrs) {
                            return Some(im);
                        }
                    }
                }
            }
        }
    }
    None
}

fn find_sfn<'a>(all: &[&'a Item], ty: &str, m: &str) -> Option<&'a ImplItemFn> {
    for it in all {
        if let Item::Impl(im) = it {
            if !cfg_on(&im.attrs) {
                continue;
            }
            if let Type::Path(p) = &*im.self_ty {
                if path_last(&p.path) != ty {
                    continue;
                }
                for ii in &im.items {
                    if let ImplItem::Fn(f) = ii {
                        if f.sig.ident == m && cfg_on(&f.attrs) {
                            return Some(f);
                        }
                    }
                }
            }
        }
    }
    None
}

/// (Lean type of the value, is the Rust return type a `Result`)
fn s_ret(tr: &Tr, sig: &Signature) -> R<(String, bool)> {
    match &sig.output {
        ReturnType::Default => Ok(("Unit".into(), false)),
        ReturnType::Type(_, t) => {
            if let Type::Path(p) = &**t {
                let seg = p.path.segments.last().ok_or("empty path")?;
                let n = seg.ident.to_string();
                if n == "ZipResult" || n == "Result" {
                    if let PathArguments::AngleBracketed(a) = &seg.arguments {
                        if let Some(GenericArgument::Type(t0)) = a.args.first() {
                            return Ok((tr.ty(t0)?, true));
                        }
                    }
                    return Err("Result without a type argument".into());
                }
            }
            Ok((tr.ty(t)?, false))
        }
    }
}

/// generic parameters `S: Into<String>` are `String`s (their UTF-8 bytes)
fn into_string_params(sig: &Signature) -> HashSet<String> {
    let mut out = HashSet::new();
    let mut check = |id: &Ident, bounds: &punctuated::Punctuated<TypeParamBound, Token![+]>| {
        for b in bounds {
            if let TypeParamBound::Trait(tb) = b {
                let s = quote::quote!(#tb).to_string().replace(' ', "");
                if s == "Into<String>" {
                    out.insert(id.to_string());
                }
            }
        }
    };
    for g in &sig.generics.params {
        if let GenericParam::Type(tp) = g {
            check(&tp.ident, &tp.bounds);
        }
    }
    if let Some(w) = &sig.generics.where_clause {
        for p in &w.predicates {
            if let WherePredicate::Type(pt) = p {
                if let Type::Path(tp) = &pt.bounded_ty {
                    if let Some(id) = tp.path.get_ident() {
                        check(id, &pt.bounds);
                    }
                }
            }
        }
    }
    out
}

pub fn sfn_info(reg: &Registry, all: &[&Item], name: &str) -> Option<MethodInfo> {
    let (ty, m) = name.split_once("::")?;
    let f = find_sfn(all, ty, m)?;
    let no_failed: HashSet<String> = HashSet::new();
    let mut tr = Tr::new(reg, &no_failed, Some(ty.to_string()), 0);
    tr.mode = Mode::S;
    if let Some(im) = find_sfn_impl(all, ty, m) {
        tr.s.sink_tys = sink_params(&im.generics);
    }
    let (ret, is_result) = s_ret(&tr, &f.sig).ok()?;
    let recv = f.sig.inputs.iter().find_map(|a| if let FnArg::Receiver(r) = a { Some(r) } else { None });
    Some(MethodInfo {
        has_self: recv.is_some(),
        mut_self: true,
        unit_ret: matches!(f.sig.output, ReturnType::Default),
        // S mode: `seek` records whether the method returns a `Result`
        fi: FnInfo { mode: Mode::S, writer_idx: None, seek: is_result, ret: Some(ret) },
    })
}

pub fn translate_sfn(reg: &Registry, failed: &HashSet<String>, all: &[&Item], name: &str) -> R<(String, String, usize, usize)> {
    let (ty, m) = name.split_once("::").ok_or("sfn needs Type::method")?;
    let f = find_sfn(all, ty, m).ok_or("not found")?;
    let mut tr = Tr::new(reg, failed, Some(ty.to_string()), 1);
    tr.mode = Mode::S;
    tr.pstate = Some("self".into());
    if let Some(im) = find_sfn_impl(all, ty, m) {
        tr.s.sink_tys = sink_params(&im.generics);
    }
    let (ret, is_result) = s_ret(&tr, &f.sig)?;
    tr.s.is_result = is_result;
    tr.ret_ty = Some(ret.clone());
    let strs = into_string_params(&f.sig);
    let mut params = vec![format!("(ext : Rs.S.Ext)")];
    let mut muts = vec![];
    let mut has_self = false;
    for a in &f.sig.inputs {
        match a {
            FnArg::Receiver(r) => {
                if r.reference.is_none() {
                    return Err("method that takes `self` by value".into());
                }
                has_self = true;
                params.push(format!("(self : Gen.{ty})"));
                tr.vars.insert("self".into(), format!("Gen.{ty}"));
            }
            FnArg::Typed(t) => {
                let (n, mutable) = match &*t.pat {
                    Pat::Ident(id) => (id.ident.to_string(), id.mutability.is_some()),
                    _ => return Err("parameter pattern".into()),
                };
                let lty = match &*t.ty {
                    Type::Path(p) if p.path.get_ident().map(|i| strs.contains(&i.to_string())).unwrap_or(false) => "Bytes".to_string(),
                    other => tr.ty(other)?,
                };
                params.push(format!("({n} : {lty})"));
                tr.vars.insert(n.clone(), lty);
                if mutable {
                    muts.push(n);
                }
            }
        }
    }
    if !has_self {
        return Err("S-mode function without a `self` parameter".into());
    }
    tr.emit("let mut self := self".into());
    tr.mut_vars.insert("self".into());
    for n in muts {
        tr.emit(format!("let mut {n} := {n}"));
        tr.mut_vars.insert(n);
    }
    tr.s_tail_block(&f.block)?;
    if tr.s.needs_now {
        params.insert(1, "(now : Gen.DateTime)".into());
        super::t6w4::mark_now(name);
    }
    let mut s = String::new();
    for a in &tr.aux {
        s += a;
        s.push('\n');
    }
    writeln!(s, "def Gen.{ty}.{m} {} : Rs.S Gen.{ty} ({ret} × Gen.{ty}) := do", params.join(" ")).unwrap();
    for l in &tr.lines {
        writeln!(s, "{l}").unwrap();
    }
    let h = tokens_hash(&quote::quote!(#f));
    Ok((s, h, f.span().start().line, f.span().end().line))
}

/// any `return` (the `?` operator is not a `return` expression)
struct HasReturn {
    found: bool,
}
impl<'ast> syn::visit::Visit<'ast> for HasReturn {
    fn visit_expr_return(&mut self, _: &'ast ExprReturn) {
        self.found = true;
    }
}

/// `a.b.c` as a list of segments when the expression is a chain of named fields over a variable
fn field_chain(e: &Expr) -> Option<Vec<String>> {
    match e {
        Expr::Path(p) if p.path.segments.len() == 1 => Some(vec![path_last(&p.path)]),
        Expr::Field(f) => {
            let mut b = field_chain(&f.base)?;
            match &f.member {
                Member::Named(n) => {
                    b.push(n.to_string());
                    Some(b)
                }
                _ => None,
            }
        }
        Expr::Paren(p) => field_chain(&p.expr),
        Expr::Reference(r) => field_chain(&r.expr),
        Expr::Unary(u) if matches!(u.op, UnOp::Deref(_)) => field_chain(&u.expr),
        // `*place.get_mut()` (an atomic cell reached through `&mut`)
        Expr::MethodCall(m) if m.method == "get_mut" && m.args.is_empty() => field_chain(&m.receiver),
        _ => None,
    }
}

/// `X.chars().last()` → X
fn last_char_of(e: &Expr) -> Option<&Expr> {
    if let Expr::MethodCall(l) = e {
        if l.method == "last" && l.args.is_empty() {
            if let Expr::MethodCall(c) = &*l.receiver {
                if c.method == "chars" && c.args.is_empty() {
                    return Some(&c.receiver);
                }
            }
        }
    }
    None
}

/// patterns over `Option<char>` with ASCII literals, as patterns over the last byte
fn ascii_char_pat(p: &Pat) -> R<String> {
    match p {
        Pat::Wild(_) => Ok("_".into()),
        Pat::Ident(id) if id.ident == "None" => Ok("none".into()),
        Pat::Or(o) => {
            let v: R<Vec<String>> = o.cases.iter().map(ascii_char_pat).collect();
            Ok(v?.join(" | "))
        }
        Pat::TupleStruct(ts) if path_last(&ts.path) == "Some" && ts.elems.len() == 1 => match &ts.elems[0] {
            Pat::Lit(PatLit { lit: Lit::Char(c), .. }) if c.value().is_ascii() => Ok(format!("some 0x{:02x}", c.value() as u32)),
            Pat::Wild(_) => Ok("some _".into()),
            _ => Err("pattern on the last character other than an ASCII literal".into()),
        },
        _ => Err("pattern on the last character".into()),
    }
}

/// `*PLACE.as_mut().unwrap()` → PLACE
fn opt_payload_place(e: &Expr) -> Option<&Expr> {
    let e = match e {
        Expr::Unary(u) if matches!(u.op, UnOp::Deref(_)) => &*u.expr,
        _ => return None,
    };
    if let Expr::MethodCall(u) = e {
        if u.method == "unwrap" && u.args.is_empty() {
            if let Expr::MethodCall(a) = &*u.receiver {
                if a.method == "as_mut" && a.args.is_empty() {
                    return Some(&a.receiver);
                }
            }
        }
    }
    None
}

fn is_path(e: &Expr, segs: &[&str]) -> bool {
    if let Expr::Path(p) = e {
        let v: Vec<String> = p.path.segments.iter().map(|s| s.ident.to_string()).collect();
        return v.len() >= segs.len() && v[v.len() - segs.len()..].iter().zip(segs.iter()).all(|(a, b)| a == b);
    }
    false
}

fn macro_name(m: &Macro) -> String {
    path_last(&m.path)
}

impl<'a> Tr<'a> {
    fn s_self_ty(&self) -> String {
        self.self_ty.clone().unwrap_or_default()
    }

    /// `X.last_mut()` / `X.last()` with `X` a `Vec` place of `self`: the Lean term of the vector
    fn s_last_of(&mut self, e: &Expr) -> R<Option<(String, String)>> {
        if let Expr::MethodCall(m) = e {
            let n = m.method.to_string();
            if (n == "last_mut" || n == "last") && m.args.is_empty() {
                if let Some(t) = self.type_of(&m.receiver) {
                    if let Some(elem) = t.strip_prefix("(List ").and_then(|x| x.strip_suffix(')')) {
                        let elem = elem.to_string();
                        let v = self.expr(&m.receiver)?;
                        return Ok(Some((v, elem)));
                    }
                }
            }
        }
        Ok(None)
    }

    /// is `e` the expression `self.inner` (the compressor stack)?
    fn s_is_inner(&self, e: &Expr) -> bool {
        self.type_of(e).as_deref() == Some("Rs.S.Inner") && field_chain(e).map(|c| c.first().map(|s| s == "self").unwrap_or(false)).unwrap_or(false)
    }

    /// field chain of a place expression, with `Place` aliases substituted
    fn s_chain(&self, e: &Expr) -> Option<Vec<String>> {
        let mut c = field_chain(e)?;
        let mut guard = 0;
        while let Some(Alias::Place(p)) = self.s.alias.get(&c[0]) {
            let mut n = p.clone();
            n.extend(c[1..].iter().cloned());
            c = n;
            guard += 1;
            if guard > 8 {
                return None;
            }
        }
        Some(c)
    }

    fn s_alias_of(&self, e: &Expr) -> Option<Alias> {
        match e {
            Expr::Path(_) => path_ident(e).and_then(|v| self.s.alias.get(&v).cloned()),
            Expr::Paren(p) => self.s_alias_of(&p.expr),
            _ => None,
        }
    }

    /// Assign `v` to the place `lhs` (a field chain over `self`, over an alias, or a local).
    pub fn s_assign(&mut self, lhs: &Expr, v: String) -> R<()> {
        let chain = self.s_chain(lhs).ok_or("assignment target")?;
        let root = chain[0].clone();
        if chain.len() == 1 {
            self.emit(format!("{root} := {v}"));
        } else {
            // nested record update, innermost first
            let mut val = v;
            for k in (1..chain.len()).rev() {
                let base = chain[..k].join(".");
                val = format!("{{ {base} with {} := {val} }}", chain[k]);
            }
            self.emit(format!("{root} := {val}"));
        }
        if let Some(Alias::LastOf(place)) = self.s.alias.get(&root).cloned() {
            // write the copy back
            self.s_assign_str(&place, format!("Rs.setLast {place} {root}"))?;
        }
        Ok(())
    }

    /// assignment to a place given as a dotted Lean path (`self.files`)
    fn s_assign_str(&mut self, place: &str, v: String) -> R<()> {
        let chain: Vec<&str> = place.split('.').collect();
        if chain.len() == 1 {
            self.emit(format!("{place} := {v}"));
            return Ok(());
        }
        let mut val = v;
        for k in (1..chain.len()).rev() {
            let base = chain[..k].join(".");
            val = format!("{{ {base} with {} := {val} }}", chain[k]);
        }
        self.emit(format!("{} := {val}", chain[0]));
        Ok(())
    }

    pub fn s_type_of(&self, e: &Expr) -> Option<String> {
        if let Some(t) = self.c_type_of(e) {
            return Some(t);
        }
        match e {
            Expr::Path(_) => {
                let v = path_ident(e)?;
                if let Some(Alias::Place(_)) = self.s.alias.get(&v) {
                    return self.type_of_plain(e);
                }
                None
            }
            Expr::MethodCall(m) => {
                let name = m.method.to_string();
                if self.s_alias_of(&m.receiver) == Some(Alias::Encoder) && name == "write" {
                    return Some("(Except ZErr UInt64)".into());
                }
                if self.s_alias_of(&m.receiver) == Some(Alias::Encoder) && name == "flush" && m.args.is_empty() {
                    return Some("(Except ZErr Unit)".into());
                }
                if self.s_is_inner(&m.receiver) {
                    match name.as_str() {
                        "ref_mut" => return Some("(Option Unit)".into()),
                        "is_closed" => return Some("Bool".into()),
                        "switch_to" => return Some("(Except ZErr Unit)".into()),
                        _ => {}
                    }
                }
                if self.s_alias_of(&m.receiver) == Some(Alias::Plain) {
                    match name.as_str() {
                        "stream_position" | "seek" => return Some("(Except ZErr UInt64)".into()),
                        _ => return Some("(Except ZErr Unit)".into()),
                    }
                }
                if name == "finish" && self.type_of(&m.receiver).as_deref() == Some("Model.EncState") {
                    return Some("(Except ZErr Unit)".into());
                }
                if name == "load" && m.args.is_empty() && self.type_of(&m.receiver).as_deref() == Some("UInt64") {
                    return Some("UInt64".into());
                }
                match name.as_str() {
                    "finalize" => {
                        if let Expr::MethodCall(c) = &*m.receiver {
                            if c.method == "clone" && self.type_of(&c.receiver).as_deref() == Some("Rs.Hasher") {
                                return Some("UInt32".into());
                            }
                        }
                    }
                    "unwrap" => {
                        if let Expr::MethodCall(l) = &*m.receiver {
                            if l.method == "last" || l.method == "last_mut" {
                                if let Some(t) = self.type_of(&l.receiver) {
                                    return t.strip_prefix("(List ").and_then(|x| x.strip_suffix(')')).map(|x| x.to_string());
                                }
                            }
                        }
                    }
                    "last" | "last_mut" => {
                        if let Some(t) = self.type_of(&m.receiver) {
                            if let Some(el) = t.strip_prefix("(List ").and_then(|x| x.strip_suffix(')')) {
                                return Some(format!("(Option {el})"));
                            }
                        }
                    }
                    "len" => {
                        if self.type_of(&m.receiver).map(|t| t.starts_with("(List ")).unwrap_or(false) {
                            return Some("UInt64".into());
                        }
                    }
                    "into" => return self.type_of(&m.receiver),
                    "unwrap_or" if m.args.len() == 1 => {
                        if let Some(t) = self.type_of(&m.receiver) {
                            if let Some(x) = t.strip_prefix("(Option ").and_then(|x| x.strip_suffix(')')) {
                                return Some(x.to_string());
                            }
                        }
                    }
                    "write" => {
                        if self.type_of(&m.receiver).as_deref() == Some("Bytes") {
                            return Some("(Except ZErr UInt64)".into());
                        }
                    }
                    _ => {}
                }
                // a translated S-mode method of `self` / of a part of `self`
                if let Some((_, mi)) = self.s_method(&m.receiver, &name) {
                    return if mi.fi.seek { mi.fi.ret.clone().map(|t| format!("(Except ZErr {t})")) } else { mi.fi.ret.clone() };
                }
                if name == "unwrap" && m.args.is_empty() && self.type_of(&m.receiver).as_deref() == Some("Rs.S.Inner") {
                    return Some("Unit".into());
                }
                None
            }
            Expr::Call(c) => {
                if is_path(&c.func, &["mem", "replace"]) && c.args.len() == 2 {
                    return self.type_of(&c.args[0]);
                }
                if (is_path(&c.func, &["Vec", "new"]) || is_path(&c.func, &["String", "new"])) && c.args.is_empty() {
                    return Some("Bytes".into());
                }
                None
            }
            Expr::Struct(st) if path_last(&st.path) == "ZipCryptoWriter" => Some("Model.EncState".into()),
            _ => None,
        }
    }

    /// a translated S-mode method called on `recv` (`self` or a field chain over `self`)
    fn s_method(&self, recv: &Expr, name: &str) -> Option<(String, MethodInfo)> {
        let t = self.type_of_plain(recv)?;
        let st = t.strip_prefix("Gen.")?;
        let mi = self.reg.methods.get(&format!("{st}::{name}"))?;
        if mi.fi.mode == Mode::S { Some((st.to_string(), mi.clone())) } else { None }
    }

    /// type of a variable / field chain (no recursion into `s_type_of`)
    fn type_of_plain(&self, e: &Expr) -> Option<String> {
        let chain = self.s_chain(e)?;
        let mut t = self.vars.get(&chain[0])?.clone();
        for f in &chain[1..] {
            let st = t.strip_prefix("Gen.")?.to_string();
            t = self.reg.struct_fields.get(&st)?.get(f)?.clone();
        }
        Some(t)
    }

    /// `io::Error::new(io::ErrorKind::K, message)` → the `ZipErr` it becomes
    fn s_io_error(&self, e: &Expr) -> R<Option<String>> {
        if let Expr::Call(c) = e {
            if is_path(&c.func, &["Error", "new"]) && c.args.len() == 2 {
                let msg_ok = matches!(&c.args[1], Expr::Lit(ExprLit { lit: Lit::Str(_), .. })) || matches!(&c.args[1], Expr::Macro(m) if macro_name(&m.mac) == "format");
                if !msg_ok {
                    return Err("io::Error::new with a computed payload".into());
                }
                if let Expr::Path(kp) = &c.args[0] {
                    let ks: Vec<String> = kp.path.segments.iter().map(|s| s.ident.to_string()).collect();
                    if ks.len() >= 2 && ks[ks.len() - 2] == "ErrorKind" {
                        let k = &ks[ks.len() - 1];
                        if ["Other", "InvalidData", "InvalidInput", "UnexpectedEof", "WriteZero", "BrokenPipe"].contains(&k.as_str()) {
                            return Ok(Some(format!("(Rs.ZipErr.Io Rs.IoKind.{k})")));
                        }
                        return Err(format!("io::ErrorKind::{k}"));
                    }
                }
                return Err("io::Error::new of an unsupported kind expression".into());
            }
        }
        Ok(None)
    }

    /// Hook of `Tr::expr` in S mode: `Some(atom)` when the expression belongs to the S vocabulary.
    pub fn s_expr(&mut self, e: &Expr, exp: &Option<String>, _tail: bool) -> R<Option<String>> {
        if let Some(v) = self.c_expr(e)? {
            return Ok(Some(v));
        }
        match e {
            Expr::Try(t) => Ok(Some(self.s_try(&t.expr, exp)?)),
            Expr::Call(c) => {
                if let Some(v) = self.s_io_error(e)? {
                    return Ok(Some(v));
                }
                // mem::replace(&mut PLACE, V): the old value; PLACE := V
                if is_path(&c.func, &["mem", "replace"]) && c.args.len() == 2 {
                    let place = match &c.args[0] {
                        Expr::Reference(r) if r.mutability.is_some() => &*r.expr,
                        _ => return Err("mem::replace of something that is not `&mut place`".into()),
                    };
                    let ty = self.type_of(place);
                    let old = self.expr(place)?;
                    let t = self.fresh();
                    self.emit(format!("let {t} := {old}"));
                    self.expect = ty;
                    let v = self.expr(&c.args[1])?;
                    self.s_assign(place, v)?;
                    return Ok(Some(t));
                }
                if (is_path(&c.func, &["Vec", "new"]) || is_path(&c.func, &["String", "new"])) && c.args.is_empty() {
                    return Ok(Some("([] : Bytes)".into()));
                }
                if is_path(&c.func, &["Hasher", "new"]) && c.args.is_empty() {
                    return Ok(Some("Rs.Hasher.new".into()));
                }
                // GenericZipWriter::Storer(MaybeEncrypted::Unencrypted(sink) | MaybeEncrypted::Encrypted(zc) | m)
                if is_path(&c.func, &["GenericZipWriter", "Storer"]) && c.args.len() == 1 {
                    if let Expr::Call(ic) = &c.args[0] {
                        if is_path(&ic.func, &["MaybeEncrypted", "Unencrypted"]) && ic.args.len() == 1 {
                            // the bare sink is the device of the monad: evaluate the argument for its effect
                            let t = self.type_of(&ic.args[0]);
                            if t.as_deref() != Some("Unit") {
                                return Err("MaybeEncrypted::Unencrypted of something that is not the bare sink".into());
                            }
                            let _ = self.expr(&ic.args[0])?;
                            return Ok(Some("(Model.Inner.storer none)".into()));
                        }
                        if is_path(&ic.func, &["MaybeEncrypted", "Encrypted"]) && ic.args.len() == 1 {
                            if self.type_of(&ic.args[0]).as_deref() != Some("Model.EncState") {
                                return Err("MaybeEncrypted::Encrypted of something that is not a ZipCryptoWriter".into());
                            }
                            let v = self.expr(&ic.args[0])?;
                            return Ok(Some(format!("(Model.Inner.storer (some {v}))")));
                        }
                    }
                    if self.type_of(&c.args[0]).as_deref() == Some("(Option Model.EncState)") {
                        let v = self.expr(&c.args[0])?;
                        return Ok(Some(format!("(Model.Inner.storer {v})")));
                    }
                    return Err("GenericZipWriter::Storer of an unsupported expression".into());
                }
                Ok(None)
            }
            Expr::Path(_) => {
                if is_path(e, &["GenericZipWriter", "Closed"]) {
                    return Ok(Some("Rs.S.closed".into()));
                }
                if let Some(v) = path_ident(e) {
                    if let Some(Alias::Place(_)) = self.s.alias.get(&v) {
                        let c = self.s_chain(e).ok_or("alias")?;
                        return Ok(Some(c.join(".")));
                    }
                }
                Ok(None)
            }
            // ZipCryptoWriter { writer: SINK, buffer: vec![], keys }
            Expr::Struct(st) if path_last(&st.path) == "ZipCryptoWriter" => {
                let mut keys: Option<String> = None;
                for f in &st.fields {
                    let n = match &f.member { Member::Named(n) => n.to_string(), _ => return Err("ZipCryptoWriter field".into()) };
                    match n.as_str() {
                        "writer" => {
                            if self.type_of(&f.expr).as_deref() != Some("Unit") {
                                return Err("ZipCryptoWriter over something that is not the bare sink".into());
                            }
                            let _ = self.expr(&f.expr)?;
                        }
                        "buffer" => {
                            let ok = matches!(&f.expr, Expr::Macro(m) if macro_name(&m.mac) == "vec" && m.mac.tokens.is_empty());
                            if !ok {
                                return Err("ZipCryptoWriter with a non-empty buffer".into());
                            }
                        }
                        "keys" => keys = Some(self.expr(&f.expr)?),
                        other => return Err(format!("ZipCryptoWriter field {other}")),
                    }
                }
                let k = keys.ok_or("ZipCryptoWriter without keys")?;
                Ok(Some(format!("({{ pw := {k}, buffer := [] }} : Model.EncState)")))
            }
            // match STRING.chars().last() { Some('c') | … => A, _ => B }  with ASCII `c`: in UTF-8 an ASCII
            // character is the last character exactly when its byte is the last byte
            Expr::Match(m) if last_char_of(&m.expr).map(|x| self.type_of(x).as_deref() == Some("Bytes")).unwrap_or(false) => {
                let x = self.expr(last_char_of(&m.expr).unwrap())?;
                let hint = exp.clone().or_else(|| m.arms.iter().find_map(|a| self.type_of(&a.body)));
                let mut out = format!("(match Rs.lastByte {x} with");
                let pad = "  ".repeat(self.indent + 1);
                for a in &m.arms {
                    if a.guard.is_some() {
                        return Err("match guard".into());
                    }
                    let p = ascii_char_pat(&a.pat)?;
                    let body = (*a.body).clone();
                    let e = hint.clone();
                    let b = self.sub_do(false, |s| {
                        s.expect = e;
                        s.expr(&body)
                    })?;
                    write!(out, "\n{pad}| {p} => {b}").unwrap();
                }
                out.push(')');
                Ok(Some(self.bind_typed(out, hint)))
            }
            // string + "literal"
            Expr::Binary(b) if matches!(b.op, BinOp::Add(_)) && self.type_of(&b.left).as_deref() == Some("Bytes") => {
                if let Expr::Lit(ExprLit { lit: Lit::Str(ls), .. }) = &*b.right {
                    let l = self.expr(&b.left)?;
                    let bytes: Vec<String> = ls.value().bytes().map(|x| format!("0x{x:02x}")).collect();
                    return Ok(Some(format!("({l} ++ [{}])", bytes.join(", "))));
                }
                Ok(None)
            }
            Expr::MethodCall(m) => self.s_method_call(m, exp),
            Expr::Macro(m) if matches!(macro_name(&m.mac).as_str(), "unreachable" | "panic") => {
                let t = self.fresh();
                self.emit(format!("let {t} ← Rs.S.panic self"));
                Ok(Some(t))
            }
            _ => Ok(None),
        }
    }

    fn s_args(&mut self, args: &punctuated::Punctuated<Expr, Token![,]>) -> R<String> {
        let mut out = String::new();
        for a in args {
            let v = self.expr(a)?;
            out.push(' ');
            out += &v;
        }
        Ok(out)
    }

    fn s_method_call(&mut self, m: &ExprMethodCall, _exp: &Option<String>) -> R<Option<String>> {
        let name = m.method.to_string();
        // w.write(buf) through the current encoder: the `io::Result<usize>` as a value
        if self.s_alias_of(&m.receiver) == Some(Alias::Encoder) {
            if name == "write" && m.args.len() == 1 {
                let a = self.expr(&m.args[0])?;
                let t1 = self.fresh();
                let t2 = self.fresh();
                self.emit(format!("let ({t1}, {t2}) ← Rs.S.call (Rs.S.enc_write ext self.inner {a})"));
                self.emit(format!("self := {{ self with inner := {t2} }}"));
                return Ok(Some(t1));
            }
            // w.flush() through the current encoder: the `io::Result<()>` as a value
            if name == "flush" && m.args.is_empty() {
                let t = self.fresh();
                self.emit(format!("let {t} ← Rs.S.call (Rs.S.enc_flush ext self.inner)"));
                return Ok(Some(t));
            }
            return Err(format!("encoder.{name}()"));
        }
        if self.s_alias_of(&m.receiver) == Some(Alias::Plain) {
            return Err(format!("sink.{name}() without `?`"));
        }
        if self.s_is_inner(&m.receiver) {
            let inner = self.expr(&m.receiver)?;
            match name.as_str() {
                "ref_mut" if m.args.is_empty() => return Ok(Some(format!("(Rs.S.ref_mut {inner})"))),
                "is_closed" if m.args.is_empty() => return Ok(Some(format!("(Rs.S.is_closed {inner})"))),
                _ => return Err(format!("inner.{name}() in this position")),
            }
        }
        match name.as_str() {
            // inner.unwrap(): the bare sink
            "unwrap" if m.args.is_empty() && self.type_of(&m.receiver).as_deref() == Some("Rs.S.Inner") => {
                let v = self.expr(&m.receiver)?;
                return Ok(Some(self.bind_m(format!("Rs.S.unwrap_sink {v}"))));
            }
            // X.last_mut().unwrap()
            "unwrap" if m.args.is_empty() => {
                if let Some((v, _)) = self.s_last_of(&m.receiver)? {
                    return Ok(Some(self.bind_m(format!("Rs.last {v}"))));
                }
            }
            "last" | "last_mut" if m.args.is_empty() => {
                if let Some((v, _)) = self.s_last_of(&Expr::MethodCall(m.clone()))? {
                    return Ok(Some(format!("(Rs.last {v})")));
                }
            }
            "len" if m.args.is_empty() => {
                if self.type_of(&m.receiver).map(|t| t.starts_with("(List ")).unwrap_or(false) {
                    let v = self.expr(&m.receiver)?;
                    return Ok(Some(format!("(Rs.vlen {v})")));
                }
            }
            // hasher.clone().finalize()
            "finalize" if m.args.is_empty() => {
                if let Expr::MethodCall(c) = &*m.receiver {
                    if c.method == "clone" && self.type_of(&c.receiver).as_deref() == Some("Rs.Hasher") {
                        let h = self.expr(&c.receiver)?;
                        return Ok(Some(format!("(Rs.Hasher.finalize {h})")));
                    }
                }
            }
            // hasher.update(buf)
            "update" if m.args.len() == 1 && self.type_of(&m.receiver).as_deref() == Some("Rs.Hasher") => {
                let h = self.expr(&m.receiver)?;
                let a = self.expr(&m.args[0])?;
                self.s_assign(&m.receiver, format!("Rs.Hasher.update {h} {a}"))?;
                return Ok(Some("()".into()));
            }
            // opt.unwrap_or(v)
            "unwrap_or" if m.args.len() == 1 => {
                if let Some(t) = self.type_of(&m.receiver) {
                    if let Some(x) = t.strip_prefix("(Option ").and_then(|x| x.strip_suffix(')')) {
                        let x = x.to_string();
                        let o = self.expr(&m.receiver)?;
                        self.expect = Some(x);
                        let mark = self.lines.len();
                        let d = self.expr(&m.args[0])?;
                        if self.lines.len() != mark {
                            return Err("unwrap_or argument with effects".into());
                        }
                        return Ok(Some(format!("(Option.getD {o} {d})")));
                    }
                }
            }
            // vec.push(x) on a vector place
            "push" if m.args.len() == 1 && self.type_of(&m.receiver).map(|t| t.starts_with("(List ")).unwrap_or(false) && self.s_is_splace(&m.receiver) => {
                let v = self.expr(&m.receiver)?;
                let x = self.expr(&m.args[0])?;
                self.s_assign(&m.receiver, format!("Rs.push {v} {x}"))?;
                return Ok(Some("()".into()));
            }
            // atomic_cell.load()
            "load" if m.args.is_empty() && self.type_of(&m.receiver).as_deref() == Some("UInt64") => {
                let v = self.expr(&m.receiver)?;
                return Ok(Some(v));
            }
            // `x.into()` on a `String` / an error value
            "into" if m.args.is_empty() => {
                let v = self.expr(&m.receiver)?;
                return Ok(Some(v));
            }
            // vec_u8.clear() on a byte-vector place reached through `last_mut().unwrap()` or a field chain
            "clear" if m.args.is_empty() && self.type_of(&m.receiver).as_deref() == Some("Bytes") => {
                if let Expr::Field(f) = &*m.receiver {
                    if let (Expr::MethodCall(u), Member::Named(fld)) = (&*f.base, &f.member) {
                        if u.method == "unwrap" && u.args.is_empty() {
                            if let Some((vecv, _)) = self.s_last_of(&u.receiver)? {
                                let el = self.bind_m(format!("Rs.last {vecv}"));
                                self.s_assign_str(&vecv, format!("Rs.setLast {vecv} {{ {el} with {fld} := [] }}"))?;
                                return Ok(Some("()".into()));
                            }
                        }
                    }
                }
                if self.s_is_splace(&m.receiver) {
                    self.s_assign(&m.receiver, "[]".into())?;
                    return Ok(Some("()".into()));
                }
                return Err("clear() on a byte vector that is not a place of `self`".into());
            }
            // <Vec<u8> as Write>::write(buf) on a byte-vector place
            "write" if m.args.len() == 1 && self.type_of(&m.receiver).as_deref() == Some("Bytes") => {
                return Ok(Some(self.s_vec_write(&m.receiver, &m.args[0])?));
            }
            _ => {}
        }
        // a translated S-mode method of `self` (not a `Result`: no `?`) or of a part of `self`
        if let Some((st, mi)) = self.s_method(&m.receiver, &name) {
            if self.failed.contains(&format!("{st}::{name}")) {
                return Err(format!("calls the untranslated {st}::{name}"));
            }
            if mi.fi.seek {
                // a `Result` method without `?`: the `Result` as a value, `self` as the callee left it
                let chain = field_chain(&m.receiver).ok_or("method receiver")?;
                if chain.len() != 1 || chain[0] != "self" {
                    return Err("Result method of a part of `self` without `?`".into());
                }
                let a = self.s_args(&m.args)?;
                let t1 = self.fresh();
                let t2 = self.fresh();
                self.emit(format!("let ({t1}, {t2}) ← Rs.S.attempt (Gen.{st}.{name} ext self{a})"));
                self.emit(format!("self := {t2}"));
                return Ok(Some(t1));
            }
            let r = self.s_call_method(&m.receiver, &st, &name, &m.args)?;
            return Ok(Some(r));
        }
        Ok(None)
    }

    /// `place.write(buf)` for a `Vec<u8>` place: appends; the place may be reached through `last_mut().unwrap()`
    fn s_vec_write(&mut self, recv: &Expr, arg: &Expr) -> R<String> {
        let a = self.expr(arg)?;
        // PLACE = BASE.field with BASE = X.last_mut().unwrap()
        if let Expr::Field(f) = recv {
            if let (Expr::MethodCall(u), Member::Named(fld)) = (&*f.base, &f.member) {
                if u.method == "unwrap" && u.args.is_empty() {
                    if let Some((vecv, _)) = self.s_last_of(&u.receiver)? {
                        let el = self.bind_m(format!("Rs.last {vecv}"));
                        let t1 = self.fresh();
                        let t2 = self.fresh();
                        self.emit(format!("let ({t1}, {t2}) := Rs.vecWrite {el}.{fld} {a}"));
                        self.s_assign_str(&vecv, format!("Rs.setLast {vecv} {{ {el} with {fld} := {t2} }}"))?;
                        return Ok(t1);
                    }
                }
            }
        }
        if field_chain(recv).is_some() {
            let cur = self.expr(recv)?;
            let t1 = self.fresh();
            let t2 = self.fresh();
            self.emit(format!("let ({t1}, {t2}) := Rs.vecWrite {cur} {a}"));
            self.s_assign(recv, t2)?;
            return Ok(t1);
        }
        Err("write to a byte vector that is not a place of `self`".into())
    }

    /// call of the S-mode method `st::name` on `recv`; the value is the method's value (for a `Result`
    /// method: after `?`)
    fn s_call_method(&mut self, recv: &Expr, st: &str, name: &str, args: &punctuated::Punctuated<Expr, Token![,]>) -> R<String> {
        let a = self.s_args(args)?;
        let chain = field_chain(recv).ok_or("method receiver")?;
        let t1 = self.fresh();
        let t2 = self.fresh();
        if chain.len() == 1 {
            let r = &chain[0];
            if r != "self" {
                return Err("S-mode method on a local".into());
            }
            let now = if super::t6w4::needs_now(&format!("{st}::{name}")) {
                self.s.needs_now = true;
                " now"
            } else {
                ""
            };
            self.emit(format!("let ({t1}, {t2}) ← Gen.{st}.{name} ext{now} self{a}"));
            self.emit(format!("self := {t2}"));
        } else {
            let place = chain.join(".");
            // put the part back into the object on the failure path
            let mut wrap = "x".to_string();
            for k in (1..chain.len()).rev() {
                let base = chain[..k].join(".");
                wrap = format!("{{ {base} with {} := {wrap} }}", chain[k]);
            }
            self.emit(format!("let ({t1}, {t2}) ← Rs.S.sub (fun x => {wrap}) (Gen.{st}.{name} ext {place}{a})"));
            self.s_assign_str(&place, t2)?;
        }
        Ok(t1)
    }

    /// `inner?`
    fn s_try(&mut self, inner: &Expr, exp: &Option<String>) -> R<String> {
        let inner = match inner {
            Expr::Paren(p) => &*p.expr,
            other => other,
        };
        if let Some(v) = self.c_try(inner)? {
            return Ok(v);
        }
        if let Expr::MethodCall(m) = inner {
            let name = m.method.to_string();
            // e.map_err(ZipError::from)?  ==  e?
            if name == "map_err" && m.args.len() == 1 && is_path(&m.args[0], &["ZipError", "from"]) {
                return self.s_try(&m.receiver, exp);
            }
            if let Some((st, _)) = self.s_method(&m.receiver, &name) {
                if self.failed.contains(&format!("{st}::{name}")) {
                    return Err(format!("calls the untranslated {st}::{name}"));
                }
                return self.s_call_method(&m.receiver, &st, &name, &m.args);
            }
            // self.write_all(bytes)? : `Write::write_all` (std's default body) over the object's own `write`
            if name == "write_all" && m.args.len() == 1 && matches!(&*m.receiver, Expr::Path(p) if p.path.is_ident("self")) {
                let st = self.s_self_ty();
                if let Some(mi) = self.reg.methods.get(&format!("{st}::write")) {
                    if mi.fi.mode == Mode::S {
                        if self.failed.contains(&format!("{st}::write")) {
                            return Err(format!("calls the untranslated {st}::write"));
                        }
                        if self.type_of(&m.args[0]).as_deref() != Some("Bytes") {
                            return Err("write_all of an expression of unknown type".into());
                        }
                        let a = self.expr(&m.args[0])?;
                        let t1 = self.fresh();
                        let t2 = self.fresh();
                        self.emit(format!("let ({t1}, {t2}) ← Rs.S.write_all (Gen.{st}.write ext) ({a}.length + 1) self {a}"));
                        self.emit(format!("self := {t2}"));
                        return Ok(t1);
                    }
                }
            }
            // self.write_uNN::<LittleEndian>(v)? : byteorder's `WriteBytesExt` over the object's own `write`
            // (`let mut buf = [0; N]; LittleEndian::write_uNN(&mut buf, v); self.write_all(&buf)`)
            if let (Some(t), true) = (write_int_ty(&name), matches!(&*m.receiver, Expr::Path(p) if p.path.is_ident("self"))) {
                let st = self.s_self_ty();
                if let Some(mi) = self.reg.methods.get(&format!("{st}::write")) {
                    if mi.fi.mode == Mode::S && name != "write_u8" {
                        if self.failed.contains(&format!("{st}::write")) {
                            return Err(format!("calls the untranslated {st}::write"));
                        }
                        if !little_endian(m) || m.args.len() != 1 {
                            return Err(format!("{name} without ::<LittleEndian>"));
                        }
                        self.expect = Some(t.into());
                        let a = self.expr(&m.args[0])?;
                        let le = match t { "UInt16" => "le16", "UInt32" => "le32", _ => "le64" };
                        let t1 = self.fresh();
                        let t2 = self.fresh();
                        self.emit(format!("let ({t1}, {t2}) ← Rs.S.write_all (Gen.{st}.write ext) ((Rs.{le} {a}).length + 1) self (Rs.{le} {a})"));
                        self.emit(format!("self := {t2}"));
                        return Ok(t1);
                    }
                }
            }
            // operations on the bare sink (`let writer = self.inner.get_plain()`)
            if self.s_alias_of(&m.receiver) == Some(Alias::Plain) {
                let op: String = if name == "stream_position" && m.args.is_empty() {
                    "Rs.S.position".into()
                } else if name == "seek" && m.args.len() == 1 {
                    let sf = self.seek_from(&m.args[0])?;
                    format!("(Rs.R.seek {sf})")
                } else if name == "write_all" && m.args.len() == 1 {
                    if self.type_of(&m.args[0]).as_deref() != Some("Bytes") {
                        return Err("write_all of an expression of unknown type".into());
                    }
                    let a = self.expr(&m.args[0])?;
                    format!("(Model.M.writeAll {a})")
                } else if let Some(t) = write_int_ty(&name) {
                    if name == "write_u8" || !little_endian(m) || m.args.len() != 1 {
                        return Err(format!("{name} without ::<LittleEndian>"));
                    }
                    self.expect = Some(t.into());
                    let a = self.expr(&m.args[0])?;
                    let le = match t { "UInt16" => "le16", "UInt32" => "le32", _ => "le64" };
                    format!("(Model.M.writeAll (Rs.{le} {a}))")
                } else {
                    return Err(format!("sink.{name}()"));
                };
                let t = self.fresh();
                self.emit(format!("let {t} ← Rs.S.io {op} self"));
                return Ok(t);
            }
            // self.inner.switch_to(method, level)?
            if name == "switch_to" && m.args.len() == 2 && self.s_is_inner(&m.receiver) {
                let inner = self.expr(&m.receiver)?;
                let a = self.expr(&m.args[0])?;
                self.expect = Some("(Option Int32)".into());
                let b = self.expr(&m.args[1])?;
                let t1 = self.fresh();
                let t2 = self.fresh();
                self.emit(format!("let ({t1}, {t2}) ← Rs.S.call (Rs.S.switch_to ext {inner} {a} {b})"));
                self.s_assign(&m.receiver, t2)?;
                let t3 = self.fresh();
                self.emit(format!("let {t3} ← Rs.S.ofResult {t1} self"));
                return Ok(t3);
            }
            // zip_crypto_writer.finish(crc32)?  : the bare sink
            if name == "finish" && m.args.len() == 1 && self.type_of(&m.receiver).as_deref() == Some("Model.EncState") {
                let w = self.expr(&m.receiver)?;
                self.expect = Some("UInt32".into());
                let c = self.expr(&m.args[0])?;
                let t = self.fresh();
                self.emit(format!("let {t} ← Rs.S.io (Rs.S.zc_finish ext {w} {c}) self"));
                return Ok(t);
            }
            // zip_crypto_writer.write_all(bytes)?  : buffered, never fails
            if name == "write_all" && m.args.len() == 1 && self.type_of(&m.receiver).as_deref() == Some("Model.EncState") && matches!(&*m.receiver, Expr::Path(_)) {
                let w = self.expr(&m.receiver)?;
                if !self.mut_vars.contains(&w) {
                    return Err("write_all on an immutable ZipCryptoWriter".into());
                }
                let a = self.expr(&m.args[0])?;
                self.emit(format!("{w} := Rs.S.zc_write {w} {a}"));
                return Ok("()".into());
            }
            // opt.ok_or(e)? / opt.ok_or_else(|| e)?
            if (name == "ok_or" || name == "ok_or_else") && m.args.len() == 1 {
                let ety = self.type_of(&m.receiver);
                if ety.as_deref().map(|t| t.starts_with("(Option ")).unwrap_or(false) {
                    let o = self.expr(&m.receiver)?;
                    let earg: &Expr = match &m.args[0] {
                        Expr::Closure(cl) if cl.inputs.is_empty() => &cl.body,
                        other if name == "ok_or" => other,
                        _ => return Err("ok_or_else with a closure that takes arguments".into()),
                    };
                    let mark = self.lines.len();
                    let e = self.expr(earg)?;
                    if self.lines.len() != mark {
                        return Err("error value with effects".into());
                    }
                    let t = self.fresh();
                    self.emit(format!("let {t} ← Rs.S.okOr {o} {e} self"));
                    return Ok(t);
                }
            }
            // a translated W-mode method of a record, called with the bare sink: `footer.write(writer)?`
            let by_type = self.type_of(&m.receiver).and_then(|t| t.strip_prefix("Gen.").map(|x| x.to_string())).and_then(|st| self.reg.methods.get(&format!("{st}::{name}")).map(|mi| (st, mi.clone())));
            if let Some((ty, info)) = by_type.or_else(|| self.method_owner(&m.receiver, &name)) {
                if info.fi.mode == Mode::W {
                    if self.failed.contains(&format!("{ty}::{name}")) {
                        return Err(format!("calls the untranslated {ty}::{name}"));
                    }
                    let recv = self.expr(&m.receiver)?;
                    let mut args = vec![];
                    for (k, a) in m.args.iter().enumerate() {
                        if Some(k) == info.fi.writer_idx {
                            if self.s_alias_of(a) != Some(Alias::Plain) {
                                return Err(format!("writer argument of {ty}::{name} is not the bare sink"));
                            }
                            continue;
                        }
                        args.push(self.expr(a)?);
                    }
                    let a = if args.is_empty() { String::new() } else { format!(" {}", args.join(" ")) };
                    let t = self.fresh();
                    if info.fi.seek {
                        self.emit(format!("let {t} ← Rs.S.runW (Gen.{ty}.{name} (ω := Rs.Act) {recv}{a}) self"));
                    } else {
                        self.emit(format!("let {t} ← Rs.S.runWB (Gen.{ty}.{name} (ω := Bytes) {recv}{a}) self"));
                    }
                    return Ok(t);
                }
            }
        }
        // a translated W-mode function, called with the bare sink (or without a sink)
        if let Expr::Call(c) = inner {
            if let Expr::Path(p) = &*c.func {
                if p.path.segments.len() == 1 {
                    let name = path_last(&p.path);
                    if let Some(fi) = self.reg.fns.get(&name).cloned() {
                        if fi.mode == Mode::W {
                            if self.failed.contains(&name) {
                                return Err(format!("calls the untranslated {name}"));
                            }
                            let mut args = vec![];
                            for (k, a) in c.args.iter().enumerate() {
                                if Some(k) == fi.writer_idx {
                                    if self.s_alias_of(a) != Some(Alias::Plain) {
                                        return Err(format!("writer argument of {name} is not the bare sink"));
                                    }
                                    continue;
                                }
                                args.push(self.expr(a)?);
                            }
                            let a = if args.is_empty() { String::new() } else { format!(" {}", args.join(" ")) };
                            let t = self.fresh();
                            if fi.seek {
                                self.emit(format!("let {t} ← Rs.S.runW (Gen.{name} (ω := Rs.Act){a}) self"));
                            } else {
                                self.emit(format!("let {t} ← Rs.S.runWB (Gen.{name} (ω := Bytes){a}) self"));
                            }
                            return Ok(t);
                        }
                    }
                }
            }
        }
        // anything that is a `Result` value
        let ty = self.type_of(inner);
        if ty.as_deref().map(|t| t.starts_with("(Except ZErr ")).unwrap_or(false) {
            let v = self.expr(inner)?;
            let t = self.fresh();
            self.emit(format!("let {t} ← Rs.S.ofResult {v} self"));
            return Ok(t);
        }
        Err(format!("`?` on an unsupported expression (line {})", inner.span().start().line))
    }

    /// Hook of `Tr::stmt` in S mode: `true` when the statement was translated here.
    pub fn s_stmt(&mut self, s: &Stmt) -> R<bool> {
        match s {
            Stmt::Local(l) if cfg_on(&l.attrs) && matches!(&l.pat, Pat::Wild(_)) => {
                // `let _ = write!(io::stderr(), ..)`: the process's stderr is not part of the model
                if let Some(init) = &l.init {
                    if let Expr::Macro(m) = &*init.expr {
                        let toks = m.mac.tokens.to_string().replace(' ', "");
                        if macro_name(&m.mac) == "write" && toks.starts_with("io::stderr(),") {
                            return Ok(true);
                        }
                    }
                }
                Ok(false)
            }
            Stmt::Local(l) if cfg_on(&l.attrs) => {
                let (name, _mutable) = match &l.pat {
                    Pat::Ident(id) => (id.ident.to_string(), id.mutability.is_some()),
                    _ => return Ok(false),
                };
                let init = match &l.init {
                    Some(i) if i.diverge.is_none() => &*i.expr,
                    _ => return Ok(false),
                };
                self.s.alias.remove(&name);
                // let mut x = [0u8; N];
                if let Expr::Repeat(rp) = init {
                    let zero = matches!(&*rp.expr, Expr::Lit(ExprLit { lit: Lit::Int(i), .. }) if i.base10_parse::<u64>().ok() == Some(0) && (i.suffix() == "u8" || i.suffix().is_empty()));
                    if let (true, Expr::Lit(ExprLit { lit: Lit::Int(n), .. })) = (zero, &*rp.len) {
                        let n = n.base10_parse::<u64>().map_err(|e| e.to_string())?;
                        let m = if _mutable { "mut " } else { "" };
                        self.emit(format!("let {m}{name} : Bytes := Rs.zeros {n}"));
                        self.vars.insert(name.clone(), "Bytes".into());
                        if _mutable { self.mut_vars.insert(name); } else { self.mut_vars.remove(&name); }
                        return Ok(true);
                    }
                    return Err("array repeat expression other than zero bytes".into());
                }
                // let writer = self.inner.get_plain();
                if let Expr::MethodCall(m) = init {
                    if m.method == "get_plain" && m.args.is_empty() && self.s_is_inner(&m.receiver) {
                        let inner = self.expr(&m.receiver)?;
                        let t = self.bind_m(format!("Rs.S.get_plain {inner}"));
                        self.emit(format!("let {name} := {t}"));
                        self.vars.insert(name.clone(), "Unit".into());
                        self.mut_vars.remove(&name);
                        self.s.alias.insert(name, Alias::Plain);
                        return Ok(true);
                    }
                    // let data_start = file.data_start.get_mut();
                    if m.method == "get_mut" && m.args.is_empty() {
                        if let Some(c) = self.s_chain(&m.receiver) {
                            if c[0] == "self" || self.s.alias.contains_key(&c[0]) {
                                if let Some(t) = self.type_of(&m.receiver) {
                                    self.vars.insert(name.clone(), t);
                                    self.mut_vars.remove(&name);
                                    self.s.alias.insert(name, Alias::Place(c));
                                    return Ok(true);
                                }
                            }
                        }
                    }
                    // let file = self.files.last_mut().unwrap();
                    if m.method == "unwrap" && m.args.is_empty() {
                        if let Some((vecv, elem)) = self.s_last_of(&m.receiver)? {
                            let t = self.bind_m(format!("Rs.last {vecv}"));
                            self.emit(format!("let mut {name} := {t}"));
                            self.vars.insert(name.clone(), elem);
                            self.mut_vars.insert(name.clone());
                            self.s.alias.insert(name, Alias::LastOf(vecv));
                            return Ok(true);
                        }
                    }
                }
                // let file = match self.files.last_mut() { None => DIVERGE, Some(f) => f };
                if let Expr::Match(mm) = init {
                    if let Some((vecv, elem)) = self.s_last_of(&mm.expr)? {
                        if mm.arms.len() == 2 {
                            let (none_arm, some_arm) = if matches!(&mm.arms[0].pat, Pat::Ident(id) if id.ident == "None") { (&mm.arms[0], &mm.arms[1]) } else { (&mm.arms[1], &mm.arms[0]) };
                            let some_ok = match &some_arm.pat {
                                Pat::TupleStruct(ts) if path_last(&ts.path) == "Some" && ts.elems.len() == 1 => match (&ts.elems[0], &*some_arm.body) {
                                    (Pat::Ident(id), body) => path_ident(body).as_deref() == Some(&id.ident.to_string()) && matches!(body, Expr::Path(_)),
                                    _ => false,
                                },
                                _ => false,
                            };
                            let none_ok = matches!(&none_arm.pat, Pat::Ident(id) if id.ident == "None") && diverges(&none_arm.body);
                            if some_ok && none_ok {
                                self.emit(format!("let some {name} := Rs.last {vecv}"));
                                self.indent += 1;
                                let mark = self.lines.len();
                                self.stmt_expr(&none_arm.body)?;
                                // the alternative of `let some x := e | alt` is one term
                                let alt: Vec<String> = self.lines.drain(mark..).collect();
                                self.indent -= 1;
                                if alt.len() != 1 {
                                    return Err("diverging arm with more than one action".into());
                                }
                                self.emit(format!("  | {}", alt[0].trim_start()));
                                self.emit(format!("let mut {name} := {name}"));
                                self.vars.insert(name.clone(), elem);
                                self.mut_vars.insert(name.clone());
                                self.s.alias.insert(name, Alias::LastOf(vecv));
                                return Ok(true);
                            }
                        }
                    }
                }
                Ok(false)
            }
            Stmt::Expr(e, _) if cfg_on(expr_attrs(e)) => self.s_stmt_expr(e),
            Stmt::Macro(m) => {
                let n = macro_name(&m.mac);
                if n == "unreachable" || n == "panic" {
                    self.emit("Rs.S.panic self".into());
                    return Ok(true);
                }
                // assert_eq!(a, b): both evaluated (in order), a panic unless equal
                if n == "assert_eq" {
                    let args: punctuated::Punctuated<Expr, Token![,]> = m.mac.parse_body_with(punctuated::Punctuated::parse_terminated).map_err(|e| e.to_string())?;
                    if args.len() != 2 {
                        return Err("assert_eq! with a message".into());
                    }
                    let ty = self.type_of(&args[0]).or_else(|| self.type_of(&args[1]));
                    self.expect = ty.clone();
                    let a = self.expr(&args[0])?;
                    self.expect = ty;
                    let b = self.expr(&args[1])?;
                    self.emit(format!("(if ({a} != {b}) then Rs.S.panic self else pure ())"));
                    return Ok(true);
                }
                Ok(false)
            }
            _ => Ok(false),
        }
    }

    fn s_is_splace(&self, lhs: &Expr) -> bool {
        match self.s_chain(lhs) {
            Some(c) => c[0] == "self" || self.s.alias.contains_key(&c[0]) || (c.len() > 1 && self.mut_vars.contains(&c[0]) && self.vars.get(&c[0]).map(|t| t.starts_with("Gen.")).unwrap_or(false)),
            None => false,
        }
    }

    fn s_stmt_expr(&mut self, e: &Expr) -> R<bool> {
        match e {
            // PLACE = v  with PLACE under `self` or under an alias
            Expr::Assign(a) if self.s_is_splace(&a.left) => {
                self.expect = self.type_of(&a.left);
                let v = self.expr(&a.right)?;
                self.s_assign(&a.left, v)?;
                Ok(true)
            }
            // *PLACE.as_mut().unwrap() op= v   (PLACE an `Option` place: panics when `None`)
            Expr::Binary(b) if is_assign_op(&b.op) && opt_payload_place(&b.left).is_some() => {
                let place = opt_payload_place(&b.left).unwrap();
                if !self.s_is_splace(place) {
                    return Err("`as_mut().unwrap()` of something that is not a place".into());
                }
                let inner_ty = self.type_of(place).and_then(|t| t.strip_prefix("(Option ").and_then(|x| x.strip_suffix(')')).map(|x| x.to_string())).ok_or("as_mut().unwrap() on a non-Option")?;
                let o = self.expr(place)?;
                let cur = self.bind_m(o);
                self.expect = Some(inner_ty);
                let r = self.expr(&b.right)?;
                use BinOp::*;
                let v = match b.op {
                    BitAndAssign(_) => format!("({cur} &&& {r})"),
                    BitOrAssign(_) => format!("({cur} ||| {r})"),
                    BitXorAssign(_) => format!("({cur} ^^^ {r})"),
                    _ => return Err("compound assignment through an Option".into()),
                };
                self.s_assign(place, format!("(some {v})"))?;
                Ok(true)
            }
            Expr::Binary(b) if is_assign_op(&b.op) && self.s_is_splace(&b.left) => {
                let t = self.type_of(&b.left).or_else(|| self.type_of(&b.right));
                let l = self.expr(&b.left)?;
                self.expect = t;
                let r = self.expr(&b.right)?;
                use BinOp::*;
                let v = match b.op {
                    AddAssign(_) => self.bind_m(format!("Rs.Arith.add {l} {r}")),
                    SubAssign(_) => self.bind_m(format!("Rs.Arith.sub {l} {r}")),
                    MulAssign(_) => self.bind_m(format!("Rs.Arith.mul {l} {r}")),
                    BitAndAssign(_) => format!("({l} &&& {r})"),
                    BitOrAssign(_) => format!("({l} ||| {r})"),
                    BitXorAssign(_) => format!("({l} ^^^ {r})"),
                    _ => return Err("compound assignment".into()),
                };
                self.s_assign(&b.left, v)?;
                Ok(true)
            }
            // match on a `GenericZipWriter` value (statement level)
            Expr::Match(m) if self.type_of(&m.expr).as_deref() == Some("Rs.S.Inner") => {
                let arms: Vec<&Arm> = m.arms.iter().filter(|a| cfg_on(&a.attrs)).collect();
                if arms.iter().any(|a| a.guard.is_some()) {
                    return Err("match guard".into());
                }
                let scrut = self.expr(&m.expr)?;
                self.emit(format!("match {scrut} with"));
                for a in arms {
                    let (p, binds) = self.s_vpat(&a.pat)?;
                    self.emit(format!("| {p} =>"));
                    let body = (*a.body).clone();
                    self.s_branch(|s| {
                        for (n, t) in &binds {
                            s.vars.insert(n.clone(), t.clone());
                            s.mut_vars.remove(n);
                            s.s.alias.remove(n);
                        }
                        match &body {
                            Expr::Block(b) => s.stmts(&b.block.stmts),
                            other => s.stmt(&Stmt::Expr(other.clone(), None)),
                        }
                    })?;
                }
                Ok(true)
            }
            Expr::Macro(m) if matches!(macro_name(&m.mac).as_str(), "unreachable" | "panic") => {
                self.emit("Rs.S.panic self".into());
                Ok(true)
            }
            // for x in VEC.iter() { body }: the body changes no variable of the function and leaves only by `?`
            Expr::ForLoop(f) => {
                let var = match &*f.pat {
                    Pat::Ident(id) => id.ident.to_string(),
                    _ => return Err("for pattern".into()),
                };
                let vec_e: &Expr = match &*f.expr {
                    Expr::MethodCall(mc) if mc.method == "iter" && mc.args.is_empty() => &mc.receiver,
                    _ => return Err("for loop over something other than `vec.iter()`".into()),
                };
                let elem = self.type_of(vec_e).and_then(|t| t.strip_prefix("(List ").and_then(|x| x.strip_suffix(')')).map(|x| x.to_string())).ok_or("for loop over something that is not a vector")?;
                let mut esc = Escapes { reg: self.reg, found: false };
                syn::visit::Visit::visit_block(&mut esc, &f.body);
                let mut av = AssignedVars { reg: self.reg, out: vec![], declared: vec![] };
                syn::visit::Visit::visit_block(&mut av, &f.body);
                let mut ret = HasReturn { found: false };
                syn::visit::Visit::visit_block(&mut ret, &f.body);
                if esc.found || ret.found || av.out.iter().any(|v| !av.declared.contains(v)) {
                    return Err("for loop whose body assigns an outer variable, breaks or returns".into());
                }
                let xs = self.expr(vec_e)?;
                self.emit(format!("Rs.S.forEach {xs} (fun {var} => do"));
                let v2 = var.clone();
                self.indent += 1;
                let r = self.s_branch(|s| {
                    s.vars.insert(v2.clone(), elem.clone());
                    s.mut_vars.remove(&v2);
                    s.s.alias.remove(&v2);
                    s.stmts(&f.body.stmts)?;
                    s.emit("pure ()".into());
                    Ok(())
                });
                self.indent -= 1;
                r?;
                let last = self.lines.pop().unwrap();
                self.lines.push(format!("{last})"));
                Ok(true)
            }
            // if let PAT = E { A } else { B }   (statement level)
            Expr::If(i) => {
                if let Expr::Let(l) = &*i.cond {
                    let scrut_ty = self.type_of(&l.expr);
                    let scrut = self.expr(&l.expr)?;
                    self.emit(format!("match {scrut} with"));
                    let p = self.s_pat(&l.pat)?;
                    self.emit(format!("| {p} =>"));
                    self.s_branch(|s| {
                        s.bind_pat_vars(&l.pat, scrut_ty.as_deref());
                        s.stmts(&i.then_branch.stmts)
                    })?;
                    self.emit("| _ =>".into());
                    match &i.else_branch {
                        Some((_, eb)) => {
                            let eb = (**eb).clone();
                            self.s_branch(|s| match &eb {
                                Expr::Block(b) => s.stmts(&b.block.stmts),
                                other => s.stmt_expr(other),
                            })?;
                        }
                        None => {
                            self.indent += 1;
                            self.emit("pure ()".into());
                            self.indent -= 1;
                        }
                    }
                    return Ok(true);
                }
                Ok(false)
            }
            _ => Ok(false),
        }
    }

    /// a statement-level branch: its own scope for variable types and aliases; never empty
    fn s_branch(&mut self, f: impl FnOnce(&mut Self) -> R<()>) -> R<()> {
        let saved_vars = self.vars.clone();
        let saved_mut = self.mut_vars.clone();
        let saved_untyped = self.untyped.clone();
        let saved_alias = self.s.alias.clone();
        let outer_rest = std::mem::take(&mut self.rest);
        self.indent += 1;
        let mark = self.lines.len();
        let r = f(self);
        if self.lines.len() == mark || self.lines.last().map(|l| l.trim_start().starts_with("let ")).unwrap_or(false) {
            self.emit("pure ()".into());
        }
        self.indent -= 1;
        self.rest = outer_rest;
        self.vars = saved_vars;
        self.mut_vars = saved_mut;
        self.untyped = saved_untyped;
        self.s.alias = saved_alias;
        r
    }

    /// patterns, with `Ok(x)` / `Err(e)` on `Result` values
    fn s_pat(&self, p: &Pat) -> R<String> {
        if let Pat::TupleStruct(ts) = p {
            let n = path_last(&ts.path);
            if ts.path.segments.len() == 1 && ts.elems.len() == 1 {
                let inner = self.s_pat(&ts.elems[0])?;
                match n.as_str() {
                    "Ok" => return Ok(format!("(Except.ok {inner})")),
                    "Err" => return Ok(format!("(Except.error {inner})")),
                    _ => {}
                }
            }
        }
        self.pat_lean(p)
    }

    /// patterns over the external `GenericZipWriter` / `MaybeEncrypted` values: the Lean pattern and the
    /// variables it binds with their types
    fn s_vpat(&self, p: &Pat) -> R<(String, Vec<(String, String)>)> {
        let segs = |path: &Path| -> Vec<String> { path.segments.iter().map(|s| s.ident.to_string()).collect() };
        match p {
            Pat::Wild(_) => Ok(("_".into(), vec![])),
            Pat::Path(pp) => {
                let v = segs(&pp.path);
                if v.ends_with(&["GenericZipWriter".to_string(), "Closed".to_string()]) {
                    return Ok(("Model.Inner.closed".into(), vec![]));
                }
                Err("pattern over the compressor stack".into())
            }
            Pat::TupleStruct(ts) if ts.elems.len() == 1 => {
                let v = segs(&ts.path);
                if v.ends_with(&["GenericZipWriter".to_string(), "Storer".to_string()]) {
                    match &ts.elems[0] {
                        Pat::Ident(id) if id.subpat.is_none() => {
                            let n = id.ident.to_string();
                            return Ok((format!("(Model.Inner.storer {n})"), vec![(n, "(Option Model.EncState)".into())]));
                        }
                        Pat::Wild(_) => return Ok(("(Model.Inner.storer _)".into(), vec![])),
                        Pat::TupleStruct(its) if its.elems.len() == 1 => {
                            let iv = segs(&its.path);
                            let var = match &its.elems[0] {
                                Pat::Ident(id) if id.subpat.is_none() => Some(id.ident.to_string()),
                                Pat::Wild(_) => None,
                                _ => return Err("pattern over the compressor stack".into()),
                            };
                            if iv.ends_with(&["MaybeEncrypted".to_string(), "Encrypted".to_string()]) {
                                return Ok(match var {
                                    Some(n) => (format!("(Model.Inner.storer (some {n}))"), vec![(n, "Model.EncState".into())]),
                                    None => ("(Model.Inner.storer (some _))".into(), vec![]),
                                });
                            }
                            if iv.ends_with(&["MaybeEncrypted".to_string(), "Unencrypted".to_string()]) {
                                if var.is_some() {
                                    return Err("binding the bare sink in a pattern".into());
                                }
                                return Ok(("(Model.Inner.storer none)".into(), vec![]));
                            }
                            return Err("pattern over the compressor stack".into());
                        }
                        _ => return Err("pattern over the compressor stack".into()),
                    }
                }
                Err("pattern over the compressor stack".into())
            }
            _ => Err("pattern over the compressor stack".into()),
        }
    }

    /// A block in result position.
    pub fn s_tail_block(&mut self, b: &Block) -> R<()> {
        let n = b.stmts.len();
        for (i, s) in b.stmts.iter().enumerate() {
            if i + 1 == n {
                if let Stmt::Expr(e, None) = s {
                    if cfg_on(expr_attrs(e)) {
                        return self.s_tail(e);
                    }
                }
            }
            self.rest = b.stmts[i + 1..].to_vec();
            self.stmt(s)?;
        }
        // no value: `()`
        if self.s.is_result {
            return Err("block of a Result method without a final expression".into());
        }
        self.emit("return ((), self)".into());
        Ok(())
    }

    /// An expression in result position: every leaf returns `(value, self)` or fails.
    pub fn s_tail(&mut self, e: &Expr) -> R<()> {
        match e {
            Expr::Paren(p) => self.s_tail(&p.expr),
            Expr::Block(b) => {
                let outer_rest = std::mem::take(&mut self.rest);
                let r = self.s_tail_block(&b.block);
                self.rest = outer_rest;
                r
            }
            Expr::If(i) => {
                if let Expr::Let(l) = &*i.cond {
                    let scrut_ty = self.type_of(&l.expr);
                    let scrut = self.expr(&l.expr)?;
                    self.emit(format!("match {scrut} with"));
                    let p = self.s_pat(&l.pat)?;
                    self.emit(format!("| {p} =>"));
                    self.s_branch(|s| {
                        s.bind_pat_vars(&l.pat, scrut_ty.as_deref());
                        s.s_tail_block(&i.then_branch)
                    })?;
                    self.emit("| _ =>".into());
                    return match &i.else_branch {
                        Some((_, eb)) => {
                            let eb = (**eb).clone();
                            self.s_branch(|s| s.s_tail(&eb))
                        }
                        None => self.s_branch(|s| {
                            s.emit("return ((), self)".into());
                            Ok(())
                        }),
                    };
                }
                let c = self.expr(&i.cond)?;
                self.emit(format!("if {c} then"));
                self.s_branch(|s| s.s_tail_block(&i.then_branch))?;
                self.emit("else".into());
                match &i.else_branch {
                    Some((_, eb)) => {
                        let eb = (**eb).clone();
                        self.s_branch(|s| s.s_tail(&eb))
                    }
                    None => self.s_branch(|s| {
                        if s.s.is_result {
                            return Err("`if` without `else` as the result of a Result method".into());
                        }
                        s.emit("return ((), self)".into());
                        Ok(())
                    }),
                }
            }
            Expr::Match(m) => {
                let arms: Vec<&Arm> = m.arms.iter().filter(|a| cfg_on(&a.attrs)).collect();
                if arms.iter().any(|a| a.guard.is_some()) {
                    return Err("match guard".into());
                }
                let scrut_ty = self.type_of(&m.expr);
                let enc = matches!(&*m.expr, Expr::MethodCall(mc) if mc.method == "ref_mut" && self.s_is_inner(&mc.receiver));
                let scrut = self.expr(&m.expr)?;
                self.emit(format!("match {scrut} with"));
                for a in arms {
                    let p = self.s_pat(&a.pat)?;
                    self.emit(format!("| {p} =>"));
                    let body = (*a.body).clone();
                    let pat = a.pat.clone();
                    let st = scrut_ty.clone();
                    self.s_branch(|s| {
                        s.bind_pat_vars(&pat, st.as_deref());
                        if enc {
                            // `Some(ref mut w)`: `w` is the current encoder
                            if let Pat::TupleStruct(ts) = &pat {
                                if let Some(Pat::Ident(id)) = ts.elems.first() {
                                    s.s.alias.insert(id.ident.to_string(), Alias::Encoder);
                                }
                            }
                        }
                        s.s_tail(&body)
                    })?;
                }
                Ok(())
            }
            Expr::Return(_) => self.stmt_expr(e),
            Expr::Macro(m) if matches!(macro_name(&m.mac).as_str(), "unreachable" | "panic") => {
                self.emit("Rs.S.panic self".into());
                Ok(())
            }
            Expr::Call(c) if self.s.is_result && matches!(&*c.func, Expr::Path(p) if p.path.segments.len() == 1 && (path_last(&p.path) == "Ok" || path_last(&p.path) == "Err")) && c.args.len() == 1 => {
                let f = if let Expr::Path(p) = &*c.func { path_last(&p.path) } else { unreachable!() };
                if f == "Ok" {
                    self.expect = self.ret_ty.clone();
                    let v = self.expr(&c.args[0])?;
                    self.emit(format!("return ({v}, self)"));
                } else {
                    let act = self.err_action(e)?.ok_or("unsupported Err(..)")?;
                    self.emit(act);
                }
                Ok(())
            }
            other => {
                if self.s.is_result {
                    // a `Result` expression as the method's result: `other?` then `Ok(..)`
                    let exp = self.ret_ty.clone();
                    let v = self.s_try(other, &exp)?;
                    self.emit(format!("return ({v}, self)"));
                } else {
                    self.expect = self.ret_ty.clone();
                    let v = self.expr(other)?;
                    self.emit(format!("return ({v}, self)"));
                }
                Ok(())
            }
        }
    }
}
