//! Tier T6, helper t6w2: the rest of `impl ZipWriter` (src/write.rs).
//!
//!   item kinds:  `tfn name`   a free function over byte slices that returns a plain value
//!                             (`fn f(x: &[u8]) -> Vec<u8>`), translated with the typed READ-mode
//!                             machinery (loops with `break`, checked arithmetic, indexing) into
//!                                 Gen.f (…) : Model.M T
//!                             (no device operation is generated: the monad only carries the panics)
//!                `afn Type::f` a constructor `fn f(mut readwriter: A) -> ZipResult<Type<A>>`,
//!                             `A: Read + Write + Seek` (`ZipWriter::new_append`): READ mode with the
//!                             owned device, the result is the generated structure of the S mode
//!
//! Vocabulary (`ZipVerif/Basic/RsB.lean`): `x[i]` on a byte slice (`Rs.B.byteAt`, a panic when out of
//! bounds), `u16::from_le_bytes([a, b])` (`Rs.B.u16_from_le`), `Vec::<u8>::with_capacity(n)`
//! (`Rs.B.with_capacity`, the empty vector), `v.extend_from_slice(x)` (`Rs.B.extend`).
use super::*;
use std::sync::Mutex;

#[derive(Default)]
pub struct W2State {
    pub active: bool,
    /// structures with `#[derive(Default)]`: name → fields in declaration order
    pub defaults: HashMap<String, Vec<String>>,
}

/// `tfn` items: name → Lean type of the value
static TFNS: Mutex<Vec<(String, String)>> = Mutex::new(Vec::new());

pub fn tfn_ret(name: &str) -> Option<String> {
    TFNS.lock().unwrap().iter().find(|(n, _)| n == name).map(|(_, t)| t.clone())
}

fn find_fn<'a>(all: &[&'a Item], name: &str) -> Option<&'a ItemFn> {
    for it in all {
        if let Item::Fn(f) = it {
            if f.sig.ident == name && cfg_on(&f.attrs) {
                return Some(f);
            }
        }
    }
    None
}

/// pass 1b: the value type of a `tfn`
pub fn register_tfn(reg: &Registry, all: &[&Item], name: &str) {
    if let Some(f) = find_fn(all, name) {
        let no_failed: HashSet<String> = HashSet::new();
        let tr = Tr::new(reg, &no_failed, None, 0);
        if let ReturnType::Type(_, t) = &f.sig.output {
            if let Ok(t) = tr.ty(t) {
                let mut g = TFNS.lock().unwrap();
                g.retain(|(n, _)| n != name);
                g.push((name.to_string(), t));
            }
        }
    }
}

pub fn translate_tfn(reg: &Registry, failed: &HashSet<String>, all: &[&Item], name: &str) -> R<(String, String, usize, usize)> {
    let f = find_fn(all, name).ok_or("not found")?;
    if !f.sig.generics.params.is_empty() || f.sig.generics.where_clause.is_some() {
        return Err("generic function".into());
    }
    let mut tr = Tr::new(reg, failed, None, 1);
    tr.mode = Mode::R;
    tr.w2.active = true;
    tr.lean_name = format!("Gen.{name}");
    let ret = match &f.sig.output {
        ReturnType::Type(_, t) => tr.ty(t)?,
        ReturnType::Default => return Err("tfn without a value".into()),
    };
    if ret.starts_with("(Except ") {
        return Err("tfn that returns a Result".into());
    }
    let mut params = vec![];
    for a in &f.sig.inputs {
        match a {
            FnArg::Receiver(_) => return Err("tfn with a self parameter".into()),
            FnArg::Typed(t) => {
                let n = match &*t.pat {
                    Pat::Ident(id) if id.mutability.is_none() => id.ident.to_string(),
                    _ => return Err("parameter pattern".into()),
                };
                if matches!(&*t.ty, Type::Reference(r) if r.mutability.is_some()) {
                    return Err("`&mut` parameter".into());
                }
                let ty = tr.ty(&t.ty)?;
                params.push(format!("({n} : {ty})"));
                tr.vars.insert(n, ty);
            }
        }
    }
    tr.ret_ty = Some(ret.clone());
    tr.hint = Some(ret.clone());
    tr.expect = Some(ret.clone());
    // not `tail`: the last expression is a plain value, not a `Result`
    let v = tr.block_value(&f.block)?;
    tr.emit(format!("pure {v}"));
    let mut s = String::new();
    for a in &tr.aux {
        s += a;
        s.push('\n');
    }
    let ps = if params.is_empty() { String::new() } else { format!(" {}", params.join(" ")) };
    writeln!(s, "def Gen.{name}{ps} : Model.M {ret} := do").unwrap();
    for l in &tr.lines {
        writeln!(s, "{l}").unwrap();
    }
    let h = tokens_hash(&quote::quote!(#f));
    Ok((s, h, f.span().start().line, f.span().end().line))
}

fn find_method<'a>(all: &[&'a Item], ty: &str, m: &str) -> Option<(&'a ItemImpl, &'a ImplItemFn)> {
    for it in all {
        if let Item::Impl(im) = it {
            if !cfg_on(&im.attrs) || im.trait_.is_some() {
                continue;
            }
            if let Type::Path(p) = &*im.self_ty {
                if path_last(&p.path) != ty {
                    continue;
                }
                for ii in &im.items {
                    if let ImplItem::Fn(f) = ii {
                        if f.sig.ident == m && cfg_on(&f.attrs) {
                            return Some((im, f));
                        }
                    }
                }
            }
        }
    }
    None
}

/// structures that derive `Default`, with their (cfg-enabled) fields
fn derive_default_structs(all: &[&Item]) -> HashMap<String, Vec<String>> {
    let mut out = HashMap::new();
    for it in all {
        if let Item::Struct(st) = it {
            if !cfg_on(&st.attrs) {
                continue;
            }
            let derives = st.attrs.iter().any(|a| {
                a.path().is_ident("derive") && matches!(&a.meta, Meta::List(l) if l.tokens.to_string().split(',').any(|t| t.trim() == "Default"))
            });
            if !derives {
                continue;
            }
            if let Fields::Named(n) = &st.fields {
                let fs = n.named.iter().filter(|f| cfg_on(&f.attrs)).map(|f| f.ident.as_ref().unwrap().to_string()).collect();
                out.insert(st.ident.to_string(), fs);
            }
        }
    }
    out
}

/// `afn Type::f`: `fn f(mut readwriter: A) -> ZipResult<Type<A>>` with `A: Read + Write + Seek` a parameter of
/// the impl: READ mode over the owned device; the value is the generated (S-mode) structure.
pub fn translate_afn(reg: &Registry, failed: &HashSet<String>, all: &[&Item], name: &str) -> R<(String, String, usize, usize)> {
    let (ty, m) = name.split_once("::").ok_or("afn needs Type::f")?;
    let (im, f) = find_method(all, ty, m).ok_or("not found")?;
    if !f.sig.generics.params.is_empty() || f.sig.generics.where_clause.is_some() || im.generics.where_clause.is_some() {
        return Err("generic function".into());
    }
    // the one type parameter of the impl: Read + Write + Seek
    let tps: Vec<&TypeParam> = im.generics.params.iter().filter_map(|g| if let GenericParam::Type(t) = g { Some(t) } else { None }).collect();
    if tps.len() != 1 || im.generics.params.len() != 1 {
        return Err("impl with other than one type parameter".into());
    }
    let mut bounds: Vec<String> = vec![];
    for b in &tps[0].bounds {
        match b {
            TypeParamBound::Trait(tb) => bounds.push(path_last(&tb.path)),
            _ => return Err("generic bound".into()),
        }
    }
    bounds.sort();
    if bounds != ["Read", "Seek", "Write"] {
        return Err(format!("device parameter bounded by {}", bounds.join(" + ")));
    }
    let dev_ty = tps[0].ident.to_string();
    // the one parameter: the device, by value
    if f.sig.inputs.len() != 1 {
        return Err("afn with other than one parameter".into());
    }
    let dev = match &f.sig.inputs[0] {
        FnArg::Typed(t) => match (&*t.pat, &*t.ty) {
            (Pat::Ident(id), Type::Path(p)) if p.path.is_ident(&dev_ty) && id.by_ref.is_none() => id.ident.to_string(),
            _ => return Err("afn parameter is not the device by value".into()),
        },
        _ => return Err("afn with a self parameter".into()),
    };
    let mut tr = Tr::new(reg, failed, Some(ty.to_string()), 1);
    tr.mode = Mode::R;
    tr.w2.active = true;
    tr.w2.defaults = derive_default_structs(all);
    tr.reader = Some(dev);
    tr.reader_owned = true;
    tr.seekable = true;
    tr.lean_name = format!("Gen.{ty}.{m}");
    // ZipResult<Type<A>>
    let ret = match &f.sig.output {
        ReturnType::Type(_, t) => match &**t {
            Type::Path(p) if path_last(&p.path) == "ZipResult" => match &p.path.segments.last().unwrap().arguments {
                PathArguments::AngleBracketed(a) if a.args.len() == 1 => match &a.args[0] {
                    GenericArgument::Type(t) => tr.ty(t)?,
                    _ => return Err("ZipResult argument".into()),
                },
                _ => return Err("ZipResult argument".into()),
            },
            _ => return Err("afn that does not return ZipResult".into()),
        },
        _ => return Err("afn that does not return ZipResult".into()),
    };
    tr.ret_ty = Some(ret.clone());
    tr.hint = Some(ret.clone());
    tr.expect = Some(ret.clone());
    tr.tail = true;
    let v = tr.block_value(&f.block)?;
    tr.emit(format!("pure {v}"));
    let mut s = String::new();
    for a in &tr.aux {
        s += a;
        s.push('\n');
    }
    writeln!(s, "def Gen.{ty}.{m} : Model.M {ret} := do").unwrap();
    for l in &tr.lines {
        writeln!(s, "{l}").unwrap();
    }
    let h = tokens_hash(&quote::quote!(#f));
    Ok((s, h, f.span().start().line, f.span().end().line))
}

/// parameters of the closures inside an expression
struct ClosureParams {
    out: Vec<String>,
}
impl<'ast> syn::visit::Visit<'ast> for ClosureParams {
    fn visit_expr_closure(&mut self, c: &'ast ExprClosure) {
        for p in &c.inputs {
            if let Pat::Ident(id) = p {
                self.out.push(id.ident.to_string());
            }
        }
        syn::visit::visit_expr_closure(self, c);
    }
}

struct AnyReturn {
    found: bool,
}
impl<'ast> syn::visit::Visit<'ast> for AnyReturn {
    fn visit_expr_try(&mut self, _: &'ast ExprTry) {
        // `?` inside a closure returns from the closure: not supported here
        self.found = true;
    }
    fn visit_expr_break(&mut self, _: &'ast ExprBreak) {
        self.found = true;
    }
    fn visit_expr_continue(&mut self, _: &'ast ExprContinue) {
        self.found = true;
    }
}

/// `collect::<Result<Vec<_>, _>>`
fn is_collect_result_vec(m: &ExprMethodCall) -> bool {
    if m.method != "collect" || !m.args.is_empty() {
        return false;
    }
    match &m.turbofish {
        Some(t) if t.args.len() == 1 => {
            let s = quote::quote!(#t).to_string().replace(' ', "");
            s == "::<Result<Vec<_>,_>>"
        }
        _ => false,
    }
}

/// is `NAME.extend_from_slice(..)` called somewhere?
struct ExtendedVec {
    name: String,
    found: bool,
}
impl<'ast> syn::visit::Visit<'ast> for ExtendedVec {
    fn visit_expr_method_call(&mut self, m: &'ast ExprMethodCall) {
        if m.method == "extend_from_slice" && path_ident(&m.receiver).as_deref() == Some(&self.name) {
            self.found = true;
        }
        syn::visit::visit_expr_method_call(self, m);
    }
}

fn is_vec_with_capacity(e: &Expr) -> bool {
    if let Expr::Call(c) = e {
        if let Expr::Path(p) = &*c.func {
            let segs: Vec<String> = p.path.segments.iter().map(|s| s.ident.to_string()).collect();
            return segs == ["Vec", "with_capacity"] && c.args.len() == 1;
        }
    }
    false
}

impl<'a> Tr<'a> {
    /// The type of `let mut name = Vec::with_capacity(..)` when `name.extend_from_slice(..)` follows: bytes.
    pub(crate) fn w2_local_type(&self, name: &str, init: &Expr) -> Option<String> {
        if !self.w2.active || !is_vec_with_capacity(init) {
            return None;
        }
        let mut v = ExtendedVec { name: name.to_string(), found: false };
        for s in &self.rest {
            syn::visit::Visit::visit_stmt(&mut v, s);
        }
        if v.found { Some("Bytes".into()) } else { None }
    }

    pub(crate) fn w2_type_of(&self, e: &Expr) -> Option<String> {
        if !self.w2.active {
            return None;
        }
        match e {
            Expr::Call(c) => {
                if let Expr::Path(p) = &*c.func {
                    let segs: Vec<String> = p.path.segments.iter().map(|s| s.ident.to_string()).collect();
                    if segs == ["u16", "from_le_bytes"] {
                        return Some("UInt16".into());
                    }
                    if segs.len() == 1 {
                        if let Some(t) = tfn_ret(&segs[0]) {
                            return Some(t);
                        }
                    }
                }
                None
            }
            _ => None,
        }
    }

    /// Hook of `Tr::expr`: `Some(atom)` when the expression belongs to this module's vocabulary.
    pub(crate) fn w2_expr(&mut self, e: &Expr, exp: &Option<String>) -> R<Option<String>> {
        match e {
            // x[i] on a byte slice
            Expr::Index(ix) if !matches!(&*ix.index, Expr::Range(_)) && self.type_of(&ix.expr).as_deref() == Some("Bytes") => {
                let a = self.expr(&ix.expr)?;
                self.expect = Some("UInt64".into());
                let i = self.expr(&ix.index)?;
                Ok(Some(self.bind_m(format!("Rs.B.byteAt {a} {i}"))))
            }
            Expr::Call(c) => {
                let p = match &*c.func {
                    Expr::Path(p) => p,
                    _ => return Ok(None),
                };
                let segs: Vec<String> = p.path.segments.iter().map(|s| s.ident.to_string()).collect();
                // u16::from_le_bytes([a, b])
                if segs == ["u16", "from_le_bytes"] && c.args.len() == 1 {
                    if let Expr::Array(arr) = &c.args[0] {
                        if arr.elems.len() == 2 {
                            self.expect = Some("UInt8".into());
                            let a = self.expr(&arr.elems[0])?;
                            self.expect = Some("UInt8".into());
                            let b = self.expr(&arr.elems[1])?;
                            return Ok(Some(format!("(Rs.B.u16_from_le {a} {b})")));
                        }
                    }
                    return Err("u16::from_le_bytes of something other than a two-element array".into());
                }
                // Vec::<u8>::with_capacity(n)
                if is_vec_with_capacity(e) && exp.as_deref() == Some("Bytes") {
                    self.expect = Some("UInt64".into());
                    let n = self.expr(&c.args[0])?;
                    return Ok(Some(format!("(Rs.B.with_capacity {n})")));
                }
                // GenericZipWriter::Storer(MaybeEncrypted::Unencrypted(device)): the device is the monad's
                if segs.ends_with(&["GenericZipWriter".to_string(), "Storer".to_string()]) && c.args.len() == 1 {
                    if let Expr::Call(ic) = &c.args[0] {
                        if let Expr::Path(ip) = &*ic.func {
                            let isegs: Vec<String> = ip.path.segments.iter().map(|s| s.ident.to_string()).collect();
                            if isegs.ends_with(&["MaybeEncrypted".to_string(), "Unencrypted".to_string()]) && ic.args.len() == 1 {
                                if self.reader_owned && matches!(&ic.args[0], Expr::Path(_)) && path_ident(&ic.args[0]) == self.reader {
                                    return Ok(Some("(Model.Inner.storer none)".into()));
                                }
                                return Err("MaybeEncrypted::Unencrypted of something that is not the owned device".into());
                            }
                        }
                    }
                    return Err("GenericZipWriter::Storer of an unsupported expression".into());
                }
                // Default::default() of a structure that derives Default: field by field
                if segs == ["Default", "default"] && c.args.is_empty() {
                    let st = exp.as_deref().and_then(|t| t.strip_prefix("Gen.")).map(|x| x.to_string()).ok_or("Default::default() of an unknown type")?;
                    let fields = self.w2.defaults.get(&st).cloned().ok_or(format!("Default::default() of {st}, which does not derive Default"))?;
                    let tys = self.reg.struct_fields.get(&st).ok_or("Default::default() of an unregistered structure")?;
                    let mut fs = vec![];
                    for f in &fields {
                        let t = tys.get(f).ok_or(format!("field {f} of {st} has no translated type"))?;
                        let d = match t.as_str() {
                            "UInt8" | "UInt16" | "UInt32" | "UInt64" => format!("(0 : {t})"),
                            "Bool" => "false".to_string(),
                            "Bytes" => "([] : Bytes)".to_string(),
                            // crc32fast: `impl Default for Hasher { fn default() -> Self { Self::new() } }`
                            "Rs.Hasher" => "Rs.Hasher.new".to_string(),
                            other => return Err(format!("Default::default() of a field of type {other}")),
                        };
                        fs.push(format!("{f} := {d}"));
                    }
                    return Ok(Some(format!("({{ {} }} : Gen.{st})", fs.join(", "))));
                }
                // a translated `tfn`: its value (a panic of the callee is a panic)
                if segs.len() == 1 {
                    if let Some(t) = tfn_ret(&segs[0]) {
                        if self.failed.contains(&segs[0]) {
                            return Err(format!("calls the untranslated {}", segs[0]));
                        }
                        let mut args = String::new();
                        for a in &c.args {
                            let v = self.expr(a)?;
                            args.push(' ');
                            args += &v;
                        }
                        return Ok(Some(self.bind_typed(format!("Gen.{}{args}", segs[0]), Some(t))));
                    }
                }
                Ok(None)
            }
            // v.extend_from_slice(x) on a local byte vector
            Expr::MethodCall(m) if m.method == "extend_from_slice" && m.args.len() == 1 => {
                let v = path_ident(&m.receiver).ok_or("extend_from_slice on something that is not a local")?;
                if !matches!(&*m.receiver, Expr::Path(_)) || self.vars.get(&v).map(|t| t.as_str()) != Some("Bytes") || !self.mut_vars.contains(&v) {
                    return Err("extend_from_slice on something that is not a local `mut` byte vector".into());
                }
                if self.type_of(&m.args[0]).as_deref() != Some("Bytes") {
                    return Err("extend_from_slice of an expression of unknown type".into());
                }
                let x = self.expr(&m.args[0])?;
                self.emit(format!("{v} := Rs.B.extend {v} {x}"));
                Ok(Some("()".into()))
            }
            _ => Ok(None),
        }
    }

    /// Hook of `Tr::stmt`: `let _ = EXPR;` - the expression is evaluated for its effect, the value dropped.
    pub(crate) fn w2_stmt(&mut self, s: &Stmt) -> R<bool> {
        if let Stmt::Local(l) = s {
            if cfg_on(&l.attrs) && matches!(&l.pat, Pat::Wild(_)) {
                let init = match &l.init {
                    Some(i) if i.diverge.is_none() => &*i.expr,
                    _ => return Ok(false),
                };
                // only a device operation: `let _ = device.seek(..)` (its `Result` is dropped)
                let ok = matches!(init, Expr::MethodCall(m) if matches!(&*m.receiver, Expr::Path(_)) && path_ident(&m.receiver) == self.reader && self.reader.is_some());
                if !ok {
                    return Err("`let _ =` of something other than a device operation".into());
                }
                let mark = self.lines.len();
                let _ = self.expr(init)?;
                if self.lines.len() == mark {
                    return Err("`let _ =` of an expression without an action".into());
                }
                return Ok(true);
            }
        }
        Ok(false)
    }

    /// Hook of `Tr::try_expr`:
    /// `(LO..HI).map(|i| BODY).collect::<Result<Vec<_>, _>>()?` - `BODY` (a `Result`) runs for `i = LO, LO+1, …`;
    /// the first `Err` ends the iteration and is the error of the whole expression (`Rs.B.collectRange`).
    pub(crate) fn w2_try(&mut self, inner: &Expr) -> R<Option<String>> {
        let m = match inner {
            Expr::MethodCall(m) if is_collect_result_vec(m) => m,
            _ => return Ok(None),
        };
        let map = match &*m.receiver {
            Expr::MethodCall(mm) if mm.method == "map" && mm.args.len() == 1 => mm,
            _ => return Err("collect of something other than `range.map(closure)`".into()),
        };
        let range = match &*map.receiver {
            Expr::Paren(p) => match &*p.expr {
                Expr::Range(r) if matches!(r.limits, RangeLimits::HalfOpen(_)) => r,
                _ => return Err("collect over something other than a half-open range".into()),
            },
            _ => return Err("collect over something other than a half-open range".into()),
        };
        let cl = match &map.args[0] {
            Expr::Closure(c) if c.inputs.len() == 1 && c.capture.is_none() => c,
            _ => return Err("map of something other than a one-parameter closure".into()),
        };
        let ivar = match &cl.inputs[0] {
            Pat::Wild(_) => "_i".to_string(),
            Pat::Ident(id) if id.mutability.is_none() => id.ident.to_string(),
            _ => return Err("closure parameter pattern".into()),
        };
        // the closure may assign its own parameters and locals only, and leaves only by its value
        let mut av = AssignedVars { reg: self.reg, out: vec![], declared: vec![] };
        syn::visit::Visit::visit_expr(&mut av, &cl.body);
        let mut cp = ClosureParams { out: vec![] };
        syn::visit::Visit::visit_expr(&mut cp, &cl.body);
        let mut ar = AnyReturn { found: false };
        syn::visit::Visit::visit_expr(&mut ar, &cl.body);
        // `return Err(..)` is the closure's (failing) value; any other `return`, `break`, loop is refused
        let mut esc = Escapes { reg: self.reg, found: false };
        syn::visit::Visit::visit_expr(&mut esc, &cl.body);
        if esc.found || ar.found || av.out.iter().any(|v| !av.declared.contains(v) && !cp.out.contains(v)) {
            return Err("closure that assigns an outer variable, returns, breaks or uses `?`".into());
        }
        let (lo, hi) = match (&range.start, &range.end) {
            (Some(a), Some(b)) => (a, b),
            _ => return Err("open range".into()),
        };
        let ity = self.type_of(hi).or_else(|| self.type_of(lo)).ok_or("range of unknown type")?;
        if ity != "UInt64" {
            return Err(format!("range over {ity}"));
        }
        self.expect = Some(ity.clone());
        let lo_s = self.expr(lo)?;
        self.expect = Some(ity.clone());
        let hi_s = self.expr(hi)?;
        let t = self.fresh();
        let head = self.lines.len();
        self.emit(String::new()); // placeholder for the header
        let saved_vars = self.vars.clone();
        let saved_mut = self.mut_vars.clone();
        let saved_untyped = self.untyped.clone();
        let outer_rest = std::mem::take(&mut self.rest);
        self.indent += 2;
        self.nontail_sub += 1;
        self.vars.insert(ivar.clone(), ity);
        self.mut_vars.remove(&ivar);
        let r = self.w2_result_value(&cl.body);
        if let Ok((v, _)) = &r {
            self.emit(format!("pure {v})"));
        }
        self.nontail_sub -= 1;
        self.indent -= 2;
        self.rest = outer_rest;
        self.vars = saved_vars;
        self.mut_vars = saved_mut;
        self.untyped = saved_untyped;
        let (_, ety) = r?;
        let ety = ety.ok_or("closure whose value type is not evident")?;
        let pad = "  ".repeat(self.indent);
        self.lines[head] = format!("{pad}let {t} : (List {ety}) ← Rs.B.collectRange {lo_s} {hi_s} (fun {ivar} => do");
        Ok(Some(t))
    }

    /// A `Result` expression whose `Ok` value is needed and whose `Err` is the error of the enclosing
    /// computation: a block ending in such an expression, `R.map(|[mut] x| VALUE)`, or a call of a
    /// translated READ-mode function.  Returns the Lean term of the value and its type.
    fn w2_result_value(&mut self, e: &Expr) -> R<(String, Option<String>)> {
        match e {
            Expr::Paren(p) => self.w2_result_value(&p.expr),
            Expr::Block(b) => {
                let live: Vec<&Stmt> = b.block.stmts.iter().filter(|s| match s {
                    Stmt::Expr(e, _) => cfg_on(expr_attrs(e)),
                    Stmt::Local(l) => cfg_on(&l.attrs),
                    _ => true,
                }).collect();
                let n = live.len();
                for (i, s) in live.iter().enumerate() {
                    if i + 1 == n {
                        if let Stmt::Expr(le, None) = s {
                            return self.w2_result_value(le);
                        }
                        return Err("block without a final expression".into());
                    }
                    self.rest = live[i + 1..].iter().map(|s| (*s).clone()).collect();
                    self.stmt(s)?;
                }
                Err("empty block".into())
            }
            // R.map(|[mut] x| VALUE)  /  R.and_then(|[mut] x| RESULT)
            Expr::MethodCall(m) if (m.method == "map" || m.method == "and_then") && m.args.len() == 1 => {
                let is_map = m.method == "map";
                let cl = match &m.args[0] {
                    Expr::Closure(c) if c.inputs.len() == 1 && c.capture.is_none() => c,
                    _ => return Err("Result::map / and_then of something other than a one-parameter closure".into()),
                };
                let (name, mutable) = match &cl.inputs[0] {
                    Pat::Ident(id) if id.by_ref.is_none() => (id.ident.to_string(), id.mutability.is_some()),
                    _ => return Err("closure parameter pattern".into()),
                };
                let (v, ty) = self.w2_result_value(&m.receiver)?;
                let ty = ty.ok_or("Result::map on a value of unknown type")?;
                let mm = if mutable { "mut " } else { "" };
                self.emit(format!("let {mm}{name} : {ty} := {v}"));
                self.vars.insert(name.clone(), ty.clone());
                if mutable { self.mut_vars.insert(name.clone()); } else { self.mut_vars.remove(&name); }
                if is_map {
                    let vty = self.type_of(&cl.body);
                    let val = match &*cl.body {
                        Expr::Block(b) => self.block_value(&b.block)?,
                        other => self.expr(other)?,
                    };
                    Ok((val, vty))
                } else {
                    // the closure's value is a `Result`: `return Err(e)` inside it and an `Err` value are the
                    // failure of the enclosing computation
                    self.w2_result_value(&cl.body)
                }
            }
            // Ok(v)
            Expr::Call(c) if matches!(&*c.func, Expr::Path(p) if p.path.is_ident("Ok")) && c.args.len() == 1 => {
                let ty = self.type_of(&c.args[0]);
                let v = self.expr(&c.args[0])?;
                Ok((v, ty))
            }
            Expr::Call(c) => {
                let ty = self.type_of(e).and_then(|t| t.strip_prefix("(Except ZErr ").and_then(|x| x.strip_suffix(')')).map(|x| x.to_string()));
                match self.r_callee(c)? {
                    Some((act, aty)) => {
                        let ty = aty.or(ty);
                        let t = self.bind_typed(act, ty.clone());
                        Ok((t, ty))
                    }
                    None => Err("closure result that is not a call of a translated READ-mode function".into()),
                }
            }
            _ => Err("unsupported closure result".into()),
        }
    }
}
