//! Tier T6, helper t6w2: the rest of `impl ZipWriter` (src/write.rs).
//!
//!   item kinds:  `tfn name`   a free function over byte slices that returns a plain value
//!                             (`fn f(x: &[u8]) -> Vec<u8>`), translated with the typed READ-mode
//!                             machinery (loops with `break`, checked arithmetic, indexing) into
//!                                 Gen.f (…) : Model.M T
//!                             (no device operation is generated: the monad only carries the panics)
//!                `afn Type::f` a constructor `fn f(mut readwriter: A) -> ZipResult<Type<A>>`,
//!                             `A: Read + Write + Seek` (`ZipWriter::new_append`): READ mode with the
//!                             owned device, the result is the generated structure of the S mode
//!
//! Vocabulary (`ZipVerif/Basic/RsB.lean`): `x[i]` on a byte slice (`Rs.B.byteAt`, a panic when out of
//! bounds), `u16::from_le_bytes([a, b])` (`Rs.B.u16_from_le`), `Vec::<u8>::with_capacity(n)`
//! (`Rs.B.with_capacity`, the empty vector), `v.extend_from_slice(x)` (`Rs.B.extend`).
use super::*;
use std::sync::Mutex;

#[derive(Default)]
pub struct W2State {
    pub active: bool,
}

/// `tfn` items: name → Lean type of the value
static TFNS: Mutex<Vec<(String, String)>> = Mutex::new(Vec::new());

pub fn tfn_ret(name: &str) -> Option<String> {
    TFNS.lock().unwrap().iter().find(|(n, _)| n == name).map(|(_, t)| t.clone())
}

fn find_fn<'a>(all: &[&'a Item], name: &str) -> Option<&'a ItemFn> {
    for it in all {
        if let Item::Fn(f) = it {
            if f.sig.ident == name && cfg_on(&f.attrs) {
                return Some(f);
            }
        }
    }
    None
}

/// pass 1b: the value type of a `tfn`
pub fn register_tfn(reg: &Registry, all: &[&Item], name: &str) {
    if let Some(f) = find_fn(all, name) {
        let no_failed: HashSet<String> = HashSet::new();
        let tr = Tr::new(reg, &no_failed, None, 0);
        if let ReturnType::Type(_, t) = &f.sig.output {
            if let Ok(t) = tr.ty(t) {
                let mut g = TFNS.lock().unwrap();
                g.retain(|(n, _)| n != name);
                g.push((name.to_string(), t));
            }
        }
    }
}

pub fn translate_tfn(reg: &Registry, failed: &HashSet<String>, all: &[&Item], name: &str) -> R<(String, String, usize, usize)> {
    let f = find_fn(all, name).ok_or("not found")?;
    if !f.sig.generics.params.is_empty() || f.sig.generics.where_clause.is_some() {
        return Err("generic function".into());
    }
    let mut tr = Tr::new(reg, failed, None, 1);
    tr.mode = Mode::R;
    tr.w2.active = true;
    tr.lean_name = format!("Gen.{name}");
    let ret = match &f.sig.output {
        ReturnType::Type(_, t) => tr.ty(t)?,
        ReturnType::Default => return Err("tfn without a value".into()),
    };
    if ret.starts_with("(Except ") {
        return Err("tfn that returns a Result".into());
    }
    let mut params = vec![];
    for a in &f.sig.inputs {
        match a {
            FnArg::Receiver(_) => return Err("tfn with a self parameter".into()),
            FnArg::Typed(t) => {
                let n = match &*t.pat {
                    Pat::Ident(id) if id.mutability.is_none() => id.ident.to_string(),
                    _ => return Err("parameter pattern".into()),
                };
                if matches!(&*t.ty, Type::Reference(r) if r.mutability.is_some()) {
                    return Err("`&mut` parameter".into());
                }
                let ty = tr.ty(&t.ty)?;
                params.push(format!("({n} : {ty})"));
                tr.vars.insert(n, ty);
            }
        }
    }
    tr.ret_ty = Some(ret.clone());
    tr.hint = Some(ret.clone());
    tr.expect = Some(ret.clone());
    // not `tail`: the last expression is a plain value, not a `Result`
    let v = tr.block_value(&f.block)?;
    tr.emit(format!("pure {v}"));
    let mut s = String::new();
    for a in &tr.aux {
        s += a;
        s.push('\n');
    }
    let ps = if params.is_empty() { String::new() } else { format!(" {}", params.join(" ")) };
    writeln!(s, "def Gen.{name}{ps} : Model.M {ret} := do").unwrap();
    for l in &tr.lines {
        writeln!(s, "{l}").unwrap();
    }
    let h = tokens_hash(&quote::quote!(#f));
    Ok((s, h, f.span().start().line, f.span().end().line))
}

/// is `NAME.extend_from_slice(..)` called somewhere?
struct ExtendedVec {
    name: String,
    found: bool,
}
impl<'ast> syn::visit::Visit<'ast> for ExtendedVec {
    fn visit_expr_method_call(&mut self, m: &'ast ExprMethodCall) {
        if m.method == "extend_from_slice" && path_ident(&m.receiver).as_deref() == Some(&self.name) {
            self.found = true;
        }
        syn::visit::visit_expr_method_call(self, m);
    }
}

fn is_vec_with_capacity(e: &Expr) -> bool {
    if let Expr::Call(c) = e {
        if let Expr::Path(p) = &*c.func {
            let segs: Vec<String> = p.path.segments.iter().map(|s| s.ident.to_string()).collect();
            return segs == ["Vec", "with_capacity"] && c.args.len() == 1;
        }
    }
    false
}

impl<'a> Tr<'a> {
    /// The type of `let mut name = Vec::with_capacity(..)` when `name.extend_from_slice(..)` follows: bytes.
    pub(crate) fn w2_local_type(&self, name: &str, init: &Expr) -> Option<String> {
        if !self.w2.active || !is_vec_with_capacity(init) {
            return None;
        }
        let mut v = ExtendedVec { name: name.to_string(), found: false };
        for s in &self.rest {
            syn::visit::Visit::visit_stmt(&mut v, s);
        }
        if v.found { Some("Bytes".into()) } else { None }
    }

    pub(crate) fn w2_type_of(&self, e: &Expr) -> Option<String> {
        if !self.w2.active {
            return None;
        }
        match e {
            Expr::Call(c) => {
                if let Expr::Path(p) = &*c.func {
                    let segs: Vec<String> = p.path.segments.iter().map(|s| s.ident.to_string()).collect();
                    if segs == ["u16", "from_le_bytes"] {
                        return Some("UInt16".into());
                    }
                    if segs.len() == 1 {
                        if let Some(t) = tfn_ret(&segs[0]) {
                            return Some(t);
                        }
                    }
                }
                None
            }
            _ => None,
        }
    }

    /// Hook of `Tr::expr`: `Some(atom)` when the expression belongs to this module's vocabulary.
    pub(crate) fn w2_expr(&mut self, e: &Expr, exp: &Option<String>) -> R<Option<String>> {
        match e {
            // x[i] on a byte slice
            Expr::Index(ix) if !matches!(&*ix.index, Expr::Range(_)) && self.type_of(&ix.expr).as_deref() == Some("Bytes") => {
                let a = self.expr(&ix.expr)?;
                self.expect = Some("UInt64".into());
                let i = self.expr(&ix.index)?;
                Ok(Some(self.bind_m(format!("Rs.B.byteAt {a} {i}"))))
            }
            Expr::Call(c) => {
                let p = match &*c.func {
                    Expr::Path(p) => p,
                    _ => return Ok(None),
                };
                let segs: Vec<String> = p.path.segments.iter().map(|s| s.ident.to_string()).collect();
                // u16::from_le_bytes([a, b])
                if segs == ["u16", "from_le_bytes"] && c.args.len() == 1 {
                    if let Expr::Array(arr) = &c.args[0] {
                        if arr.elems.len() == 2 {
                            self.expect = Some("UInt8".into());
                            let a = self.expr(&arr.elems[0])?;
                            self.expect = Some("UInt8".into());
                            let b = self.expr(&arr.elems[1])?;
                            return Ok(Some(format!("(Rs.B.u16_from_le {a} {b})")));
                        }
                    }
                    return Err("u16::from_le_bytes of something other than a two-element array".into());
                }
                // Vec::<u8>::with_capacity(n)
                if is_vec_with_capacity(e) && exp.as_deref() == Some("Bytes") {
                    self.expect = Some("UInt64".into());
                    let n = self.expr(&c.args[0])?;
                    return Ok(Some(format!("(Rs.B.with_capacity {n})")));
                }
                // a translated `tfn`: its value (a panic of the callee is a panic)
                if segs.len() == 1 {
                    if let Some(t) = tfn_ret(&segs[0]) {
                        if self.failed.contains(&segs[0]) {
                            return Err(format!("calls the untranslated {}", segs[0]));
                        }
                        let mut args = String::new();
                        for a in &c.args {
                            let v = self.expr(a)?;
                            args.push(' ');
                            args += &v;
                        }
                        return Ok(Some(self.bind_typed(format!("Gen.{}{args}", segs[0]), Some(t))));
                    }
                }
                Ok(None)
            }
            // v.extend_from_slice(x) on a local byte vector
            Expr::MethodCall(m) if m.method == "extend_from_slice" && m.args.len() == 1 => {
                let v = path_ident(&m.receiver).ok_or("extend_from_slice on something that is not a local")?;
                if !matches!(&*m.receiver, Expr::Path(_)) || self.vars.get(&v).map(|t| t.as_str()) != Some("Bytes") || !self.mut_vars.contains(&v) {
                    return Err("extend_from_slice on something that is not a local `mut` byte vector".into());
                }
                if self.type_of(&m.args[0]).as_deref() != Some("Bytes") {
                    return Err("extend_from_slice of an expression of unknown type".into());
                }
                let x = self.expr(&m.args[0])?;
                self.emit(format!("{v} := Rs.B.extend {v} {x}"));
                Ok(Some("()".into()))
            }
            _ => Ok(None),
        }
    }
}
