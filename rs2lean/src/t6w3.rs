//! Tier T6, helper t6w3: the crate's own logic INSIDE the compressor stack - the methods of the enum
//! `GenericZipWriter` (`switch_to`, `current_compression`) and the pure helpers they call
//! (`clamp_opt`, `deflate_compression_level_range`, `bzip2_compression_level_range`).
//!
//!   item kind `gfn NAME` / `gfn Type::method`:
//!     `&mut self` method returning `ZipResult<R>`  →
//!         Gen.Type.method (ext : Rs.S.Ext) (self : Rs.S.GZW) (…) : Rs.S Rs.S.GZW (R × Rs.S.GZW)
//!     `&self` method / free function               →  a pure Lean function
//!
//! The enum itself is EXTERNAL-shaped vocabulary (`Rs.S.GZW` in `Basic/RsS.lean`: one constructor per variant,
//! features deflate / bzip2 / zstd on); so are the encoders it holds (`Rs.S.Enc`), their constructors
//! (`DeflateEncoder::new`, `BzEncoder::new`, `ZstdEncoder::new`, `flate2::Compression::new`,
//! `bzip2::Compression::new`), `encoder.finish()`, and the level constants of the three libraries
//! (`flate2::Compression::{none,best,default}().level()`, `bzip2::Compression::{fast,best,default}().level()`,
//! `zstd::DEFAULT_COMPRESSION_LEVEL`, `zstd::compression_level_range()`).  Everything else - the control
//! flow, the order of the checks, which range belongs to which method, `mem::replace(self, Closed)`, the
//! `?`s, the refusals - is translated statement by statement:
//!   * `mem::replace(self, V)`: the old value; `self := V`;  `*self = e`: `self := e`;
//!   * `match` / block / `if` in value position: `let t ← (match … with | p => (do …))`; an arm that leaves by
//!     `return Err(e)` is the failing action `Rs.S.err e self` (it carries the CURRENT `self`);
//!   * a guard `P if g => A` is accepted when a later wildcard arm exists and no arm in between can match a
//!     value of `P`'s constructor: `| P => if g then A else <wildcard body>`;
//!   * `x?` on `encoder.finish()` is `Rs.S.tryM`, on `opt.ok_or(e)` is `Rs.S.okOr`, `.unwrap()` is `Rs.S.lift`.
//! Anything else makes the item `untranslated`.
use super::*;
use std::sync::Mutex;

static GFNS: Mutex<Vec<String>> = Mutex::new(Vec::new());

pub fn register_gfn(name: &str) {
    GFNS.lock().unwrap().push(name.to_string());
}
fn is_gfn(name: &str) -> bool {
    GFNS.lock().unwrap().iter().any(|n| n == name)
}

const GZW: &str = "GenericZipWriter";

enum Val {
    Atom(String),
    Diverges,
}

struct G<'a> {
    reg: &'a Registry,
    failed: &'a HashSet<String>,
    monadic: bool,
    lines: Vec<String>,
    indent: usize,
    n: usize,
    /// type tags of variables (only what the vocabulary dispatch needs)
    tags: HashMap<String, String>,
    tparams: HashSet<String>,
    self_ty: Option<String>,
    /// tags of the values the alternatives of the innermost value-position `match` produced
    arm_tags: Vec<Option<String>>,
    /// nesting depth of value-position alternatives (a Lean term: `self` cannot be assigned there)
    in_arm: usize,
    bad: Option<String>,
}

fn segs(p: &Path) -> Vec<String> {
    p.segments.iter().map(|s| s.ident.to_string()).collect()
}
fn ends(v: &[String], tail: &[&str]) -> bool {
    v.len() >= tail.len() && v[v.len() - tail.len()..].iter().zip(tail.iter()).all(|(a, b)| a == b)
}

impl<'a> G<'a> {
    fn emit(&mut self, s: String) {
        if self.in_arm > 0 && s.starts_with("self := ") {
            // reported by the callers' `?` through `bad`
            self.bad = Some("assignment to `self` inside a value-position alternative".into());
        }
        self.lines.push(format!("{}{}", "  ".repeat(self.indent), s));
    }
    fn fresh(&mut self) -> String {
        self.n += 1;
        format!("t{}", self.n)
    }

    fn ty(&self, t: &Type) -> R<String> {
        match t {
            Type::Reference(r) => self.ty(&r.elem),
            Type::Paren(p) => self.ty(&p.elem),
            Type::Tuple(t) if t.elems.is_empty() => Ok("Unit".into()),
            Type::Path(p) => {
                let seg = p.path.segments.last().ok_or("empty path")?;
                let n = seg.ident.to_string();
                let arg0 = || -> R<String> {
                    if let PathArguments::AngleBracketed(a) = &seg.arguments {
                        if let Some(GenericArgument::Type(t0)) = a.args.first() {
                            return self.ty(t0);
                        }
                    }
                    Err(format!("{n} without a type argument"))
                };
                if self.tparams.contains(&n) {
                    return Ok(n);
                }
                match n.as_str() {
                    "i32" => Ok("Int32".into()),
                    "u32" => Ok("UInt32".into()),
                    "bool" => Ok("Bool".into()),
                    "Option" => Ok(format!("(Option {})", arg0()?)),
                    "RangeInclusive" => Ok(format!("(Rs.RangeIncl {})", arg0()?)),
                    "Self" if self.self_ty.as_deref() == Some(GZW) => Ok("Rs.S.GZW".into()),
                    _ if n == GZW => Ok("Rs.S.GZW".into()),
                    _ if self.reg.enums.contains_key(&n) => Ok(format!("Gen.{n}")),
                    _ => Err(format!("type {n}")),
                }
            }
            _ => Err("type".into()),
        }
    }

    fn zip_err(&self, e: &Expr) -> R<String> {
        match e {
            Expr::Paren(p) => self.zip_err(&p.expr),
            // io::Error::new(io::ErrorKind::K, "literal").into()
            Expr::MethodCall(m) if m.method == "into" && m.args.is_empty() => self.zip_err(&m.receiver),
            Expr::Call(c) => {
                if let Expr::Path(p) = &*c.func {
                    let v = segs(&p.path);
                    if ends(&v, &["Error", "new"]) && c.args.len() == 2 {
                        if !matches!(&c.args[1], Expr::Lit(ExprLit { lit: Lit::Str(_), .. })) {
                            return Err("io::Error::new with a computed payload".into());
                        }
                        if let Expr::Path(kp) = &c.args[0] {
                            let ks = segs(&kp.path);
                            if ks.len() >= 2 && ks[ks.len() - 2] == "ErrorKind" {
                                let k = &ks[ks.len() - 1];
                                if ["Other", "InvalidData", "InvalidInput", "UnexpectedEof", "WriteZero", "BrokenPipe"].contains(&k.as_str()) {
                                    return Ok(format!("(Rs.ZipErr.Io Rs.IoKind.{k})"));
                                }
                                return Err(format!("io::ErrorKind::{k}"));
                            }
                        }
                        return Err("io::Error::new".into());
                    }
                    if v.len() == 2 && v[0] == "ZipError" && c.args.len() == 1 {
                        if !matches!(&c.args[0], Expr::Lit(ExprLit { lit: Lit::Str(_), .. })) {
                            return Err("ZipError with a computed payload".into());
                        }
                        return match v[1].as_str() {
                            "UnsupportedArchive" | "InvalidArchive" => Ok(format!("Rs.ZipErr.{}", v[1])),
                            o => Err(format!("ZipError::{o}")),
                        };
                    }
                }
                Err("error value".into())
            }
            _ => Err("error value".into()),
        }
    }

    /// `lib::Compression::which().level()`
    fn level_const(&self, m: &ExprMethodCall) -> Option<String> {
        if m.method != "level" || !m.args.is_empty() {
            return None;
        }
        if let Expr::Call(c) = &*m.receiver {
            if !c.args.is_empty() {
                return None;
            }
            if let Expr::Path(p) = &*c.func {
                let v = segs(&p.path);
                if v.len() == 3 && v[1] == "Compression" && (v[0] == "flate2" || v[0] == "bzip2") && ["none", "fast", "best", "default"].contains(&v[2].as_str()) {
                    return Some(format!("Rs.S.{}_level_{}", v[0], v[2]));
                }
            }
        }
        None
    }

    fn args(&mut self, args: &punctuated::Punctuated<Expr, Token![,]>) -> R<Vec<String>> {
        let mut out = vec![];
        for a in args {
            out.push(self.atom(a)?);
        }
        Ok(out)
    }

    /// a value that cannot diverge
    fn atom(&mut self, e: &Expr) -> R<String> {
        match self.val(e)? {
            Val::Atom(a) => Ok(a),
            Val::Diverges => Err("diverging expression in argument position".into()),
        }
    }

    fn need_monad(&self, what: &str) -> R<()> {
        if self.monadic { Ok(()) } else { Err(format!("{what} in a pure function")) }
    }

    fn tag_of(&self, e: &Expr) -> Option<String> {
        match e {
            Expr::Path(p) => p.path.get_ident().and_then(|i| self.tags.get(&i.to_string()).cloned()),
            Expr::Paren(p) => self.tag_of(&p.expr),
            _ => None,
        }
    }

    fn val(&mut self, e: &Expr) -> R<Val> {
        let a = |s: String| Ok(Val::Atom(s));
        match e {
            Expr::Paren(p) => self.val(&p.expr),
            Expr::Reference(r) => self.val(&r.expr),
            Expr::Unary(u) if matches!(u.op, UnOp::Deref(_)) => self.val(&u.expr),
            Expr::Lit(ExprLit { lit: Lit::Bool(b), .. }) => a(format!("{}", b.value)),
            Expr::Tuple(t) if t.elems.is_empty() => a("()".into()),
            Expr::Path(p) => {
                let v = segs(&p.path);
                if v.len() == 1 {
                    if v[0] == "None" {
                        return a("none".into());
                    }
                    return a(v[0].clone());
                }
                if ends(&v, &[GZW, "Closed"]) {
                    return a("Rs.S.GZW.Closed".into());
                }
                if ends(&v, &["zstd", "DEFAULT_COMPRESSION_LEVEL"]) {
                    return a("Rs.S.zstd_DEFAULT_COMPRESSION_LEVEL".into());
                }
                if v.len() == 2 {
                    if let Some(vs) = self.reg.enums.get(&v[0]) {
                        if vs.iter().any(|(n, payload)| n == &v[1] && !payload) {
                            return a(format!("Gen.{}.{}", v[0], v[1]));
                        }
                    }
                }
                Err(format!("path {}", v.join("::")))
            }
            Expr::Cast(c) => {
                let t = self.ty(&c.ty)?;
                let x = self.atom(&c.expr)?;
                a(format!("(Rs.as' {t} {x})"))
            }
            Expr::Range(r) if matches!(r.limits, RangeLimits::Closed(_)) => {
                let (lo, hi) = match (&r.start, &r.end) {
                    (Some(l), Some(h)) => (self.atom(l)?, self.atom(h)?),
                    _ => return Err("open range".into()),
                };
                a(format!("(Rs.RangeIncl.mk {lo} {hi})"))
            }
            Expr::Binary(b) if matches!(b.op, BinOp::Eq(_)) => {
                let l = self.atom(&b.left)?;
                let r = self.atom(&b.right)?;
                a(format!("({l} == {r})"))
            }
            Expr::Try(t) => {
                self.need_monad("`?`")?;
                let inner = match &*t.expr {
                    Expr::Paren(p) => &*p.expr,
                    o => o,
                };
                if let Expr::MethodCall(m) = inner {
                    // encoder.finish()?
                    if m.method == "finish" && m.args.is_empty() {
                        if let Some(tag) = self.tag_of(&m.receiver) {
                            if ["DeflateEncoder", "BzEncoder", "ZstdEncoder"].contains(&tag.as_str()) {
                                let w = self.atom(&m.receiver)?;
                                let t = self.fresh();
                                self.emit(format!("let {t} ← Rs.S.tryM (Rs.S.{tag}.finish ext {w}) self"));
                                self.tags.insert(t.clone(), "MaybeEncrypted".into());
                                return a(t);
                            }
                        }
                        return Err("finish() of something that is not an encoder".into());
                    }
                    // opt.ok_or(e)?
                    if m.method == "ok_or" && m.args.len() == 1 {
                        let o = self.atom(&m.receiver)?;
                        let e = self.zip_err(&m.args[0])?;
                        let t = self.fresh();
                        self.emit(format!("let {t} ← Rs.S.okOr {o} {e} self"));
                        return a(t);
                    }
                }
                Err("`?` on an unsupported expression".into())
            }
            Expr::Call(c) => {
                let v = match &*c.func {
                    Expr::Path(p) => segs(&p.path),
                    _ => return Err("call of a computed function".into()),
                };
                if v.len() == 1 && v[0] == "Some" && c.args.len() == 1 {
                    let x = self.atom(&c.args[0])?;
                    return a(format!("(some {x})"));
                }
                // mem::replace(self, V)
                if ends(&v, &["mem", "replace"]) && c.args.len() == 2 {
                    self.need_monad("mem::replace")?;
                    if !matches!(&c.args[0], Expr::Path(p) if p.path.is_ident("self")) {
                        return Err("mem::replace of something other than `self`".into());
                    }
                    let t = self.fresh();
                    self.emit(format!("let {t} := self"));
                    let nv = self.atom(&c.args[1])?;
                    self.emit(format!("self := {nv}"));
                    self.tags.insert(t.clone(), GZW.into());
                    return a(t);
                }
                if v.len() == 2 && v[0] == GZW && c.args.len() == 1 && ["Storer", "Deflater", "Bzip2", "Zstd"].contains(&v[1].as_str()) {
                    let x = self.atom(&c.args[0])?;
                    return a(format!("(Rs.S.GZW.{} {x})", v[1]));
                }
                if v.len() == 2 && v[1] == "new" && c.args.len() == 2 && ["DeflateEncoder", "BzEncoder", "ZstdEncoder"].contains(&v[0].as_str()) {
                    if self.tag_of(&c.args[0]).as_deref() != Some("MaybeEncrypted") {
                        return Err(format!("{}::new over something that is not the taken-out writer", v[0]));
                    }
                    let xs = self.args(&c.args)?;
                    return a(format!("(Rs.S.{}.new {} {})", v[0], xs[0], xs[1]));
                }
                if v.len() == 3 && v[1] == "Compression" && v[2] == "new" && (v[0] == "flate2" || v[0] == "bzip2") && c.args.len() == 1 {
                    let x = self.atom(&c.args[0])?;
                    return a(format!("(Rs.S.{}_Compression_new {x})", v[0]));
                }
                if ends(&v, &["zstd", "compression_level_range"]) && c.args.is_empty() {
                    return a("Rs.S.zstd_compression_level_range".into());
                }
                if v.len() == 1 && is_gfn(&v[0]) {
                    if self.failed.contains(&v[0]) {
                        return Err(format!("calls the untranslated {}", v[0]));
                    }
                    let xs = self.args(&c.args)?;
                    return a(if xs.is_empty() { format!("Gen.{}", v[0]) } else { format!("(Gen.{} {})", v[0], xs.join(" ")) });
                }
                Err(format!("call of {}", v.join("::")))
            }
            Expr::MethodCall(m) => {
                let name = m.method.to_string();
                if let Some(c) = self.level_const(m) {
                    return a(c);
                }
                match name.as_str() {
                    "unwrap_or" if m.args.len() == 1 => {
                        let o = self.atom(&m.receiver)?;
                        let d = self.atom(&m.args[0])?;
                        a(format!("(Option.getD {o} {d})"))
                    }
                    "is_some" if m.args.is_empty() => {
                        let o = self.atom(&m.receiver)?;
                        a(format!("(Option.isSome {o})"))
                    }
                    "contains" if m.args.len() == 1 => {
                        let r = self.atom(&m.receiver)?;
                        let x = self.atom(&m.args[0])?;
                        a(format!("(Rs.RangeIncl.contains {r} {x})"))
                    }
                    // ZstdEncoder::new(..).unwrap()
                    "unwrap" if m.args.is_empty() => {
                        self.need_monad("unwrap()")?;
                        let ok = matches!(&*m.receiver, Expr::Call(c) if matches!(&*c.func, Expr::Path(p) if segs(&p.path) == ["ZstdEncoder", "new"]));
                        if !ok {
                            return Err("unwrap() of an unsupported expression".into());
                        }
                        let x = self.atom(&m.receiver)?;
                        let t = self.fresh();
                        self.emit(format!("let {t} ← Rs.S.lift {x} self"));
                        a(t)
                    }
                    _ => {
                        // a translated method of the same type on `self`
                        if matches!(&*m.receiver, Expr::Path(p) if p.path.is_ident("self")) {
                            if let Some(st) = &self.self_ty {
                                let full = format!("{st}::{name}");
                                if is_gfn(&full) {
                                    if self.failed.contains(&full) {
                                        return Err(format!("calls the untranslated {full}"));
                                    }
                                    if !m.args.is_empty() {
                                        return Err("method call with arguments".into());
                                    }
                                    return a(format!("(Gen.{st}.{name} self)"));
                                }
                            }
                        }
                        Err(format!("method {name}()"))
                    }
                }
            }
            Expr::Return(r) => {
                self.need_monad("return")?;
                let inner = r.expr.as_ref().ok_or("return without a value")?;
                self.ret(inner)?;
                Ok(Val::Diverges)
            }
            Expr::Block(b) => self.block_val(&b.block),
            Expr::If(i) => {
                if matches!(&*i.cond, Expr::Let(_)) {
                    return Err("if let".into());
                }
                let c = self.atom(&i.cond)?;
                let eb = i.else_branch.as_ref().ok_or("`if` without `else` in value position")?;
                let th = self.arm(|s| s.block_val(&i.then_branch))?;
                let el = self.arm(|s| s.val(&eb.1))?;
                if self.monadic {
                    let t = self.fresh();
                    self.emit(format!("let {t} ← (if {c} then {th} else {el})"));
                    a(t)
                } else {
                    a(format!("(if {c} then {th} else {el})"))
                }
            }
            Expr::Match(m) => {
                let arms: Vec<&Arm> = m.arms.iter().filter(|x| cfg_on(&x.attrs)).collect();
                if arms.iter().any(|x| x.guard.is_some()) {
                    return Err("match guard in value position".into());
                }
                let scrut_tag = self.tag_of(&m.expr);
                let s = self.atom(&m.expr)?;
                let mut out = format!("(match {s} with");
                let pad = "  ".repeat(self.indent + 2);
                let outer_tags = std::mem::take(&mut self.arm_tags);
                for arm in arms {
                    let (p, binds) = self.pat(&arm.pat, scrut_tag.as_deref())?;
                    let body = (*arm.body).clone();
                    let saved = self.tags.clone();
                    for (n, t) in binds {
                        self.tags.insert(n, t);
                    }
                    self.indent += 2;
                    let r = self.arm(|s| s.val(&body));
                    self.indent -= 2;
                    self.tags = saved;
                    write!(out, "\n{pad}| {p} => {}", r?).unwrap();
                }
                out.push(')');
                let produced = std::mem::replace(&mut self.arm_tags, outer_tags);
                let common = match produced.first() {
                    Some(Some(t0)) if produced.iter().all(|t| t.as_ref() == Some(t0)) => Some(t0.clone()),
                    _ => None,
                };
                if self.monadic {
                    let t = self.fresh();
                    self.emit(format!("let {t} ← {out}"));
                    if let Some(c) = common {
                        self.tags.insert(t.clone(), c);
                    }
                    a(t)
                } else {
                    a(out)
                }
            }
            _ => Err(format!("expression (line {})", e.span().start().line)),
        }
    }

    /// one alternative of a value-position `match` / `if`: a Lean term of the enclosing monad (or a pure term)
    fn arm(&mut self, f: impl FnOnce(&mut Self) -> R<Val>) -> R<String> {
        let outer = std::mem::take(&mut self.lines);
        self.indent += 2;
        self.in_arm += 1;
        let r = f(self);
        self.in_arm -= 1;
        self.indent -= 2;
        let mut inner = std::mem::replace(&mut self.lines, outer);
        let v = r?;
        if let Val::Atom(a) = &v {
            let t = self.tags.get(a).cloned();
            self.arm_tags.push(t);
        }
        if !self.monadic {
            return match v {
                Val::Atom(a) if inner.is_empty() => Ok(a),
                _ => Err("effects in a pure function".into()),
            };
        }
        if let Val::Atom(a) = v {
            inner.push(format!("{}pure {a}", "  ".repeat(self.indent + 2)));
        }
        if inner.len() == 1 {
            return Ok(format!("({})", inner[0].trim_start()));
        }
        Ok(format!("(do\n{})", inner.join("\n")))
    }

    fn block_val(&mut self, b: &Block) -> R<Val> {
        let n = b.stmts.len();
        for (i, s) in b.stmts.iter().enumerate() {
            if i + 1 == n {
                if let Stmt::Expr(e, None) = s {
                    if cfg_on(expr_attrs(e)) {
                        return self.val(e);
                    }
                }
            }
            if self.stmt(s)? {
                // the block left by `return`
                return Ok(Val::Diverges);
            }
        }
        Ok(Val::Atom("()".into()))
    }

    /// `return e` / the function's final expression
    fn ret(&mut self, e: &Expr) -> R<()> {
        if let Expr::Call(c) = e {
            if let Expr::Path(p) = &*c.func {
                if p.path.is_ident("Ok") && c.args.len() == 1 {
                    let v = self.atom(&c.args[0])?;
                    self.emit(format!("return ({v}, self)"));
                    return Ok(());
                }
                if p.path.is_ident("Err") && c.args.len() == 1 {
                    let v = self.zip_err(&c.args[0])?;
                    self.emit(format!("Rs.S.err {v} self"));
                    return Ok(());
                }
            }
        }
        Err("result expression other than Ok(..) / Err(..)".into())
    }

    /// pattern → (Lean pattern, bound variables with tags)
    fn pat(&self, p: &Pat, scrut_tag: Option<&str>) -> R<(String, Vec<(String, String)>)> {
        let _ = scrut_tag;
        match p {
            Pat::Wild(_) => Ok(("_".into(), vec![])),
            Pat::Ident(id) if id.ident == "None" => Ok(("none".into(), vec![])),
            Pat::Ident(id) if id.subpat.is_none() && id.by_ref.is_none() => Ok((id.ident.to_string(), vec![])),
            Pat::Path(pp) => {
                let v = segs(&pp.path);
                if ends(&v, &[GZW, "Closed"]) {
                    return Ok(("Rs.S.GZW.Closed".into(), vec![]));
                }
                if v.len() == 2 {
                    if let Some(vs) = self.reg.enums.get(&v[0]) {
                        if vs.iter().any(|(n, payload)| n == &v[1] && !payload) {
                            return Ok((format!("Gen.{}.{}", v[0], v[1]), vec![]));
                        }
                        // an associated constant used as a pattern: its (translated, `aconst`) definition names
                        // the variant; the obligation `Gen.T.C = Gen.T.Variant` is part of the tie
                        if let Some((vn, _)) = vs.iter().find(|(n, payload)| !payload && n.to_uppercase() == v[1]) {
                            if self.failed.contains(&format!("{}::{}", v[0], v[1])) {
                                return Err(format!("constant pattern {}::{} (untranslated constant)", v[0], v[1]));
                            }
                            return Ok((format!("Gen.{}.{}", v[0], vn), vec![]));
                        }
                    }
                }
                Err(format!("pattern {}", v.join("::")))
            }
            Pat::TupleStruct(ts) => {
                let v = segs(&ts.path);
                let one = |tag: Option<&str>| -> R<(String, Vec<(String, String)>)> {
                    if ts.elems.len() != 1 {
                        return Err("pattern arity".into());
                    }
                    match &ts.elems[0] {
                        Pat::Ident(id) if id.subpat.is_none() => {
                            let n = id.ident.to_string();
                            Ok((n.clone(), tag.map(|t| vec![(n, t.to_string())]).unwrap_or_default()))
                        }
                        Pat::Wild(_) | Pat::Rest(_) => Ok(("_".into(), vec![])),
                        _ => Err("nested pattern".into()),
                    }
                };
                if v.len() == 1 && v[0] == "Some" {
                    let (x, b) = one(None)?;
                    return Ok((format!("some {x}"), b));
                }
                if v.len() == 2 && v[0] == GZW {
                    let tag = match v[1].as_str() {
                        "Storer" => "MaybeEncrypted",
                        "Deflater" => "DeflateEncoder",
                        "Bzip2" => "BzEncoder",
                        "Zstd" => "ZstdEncoder",
                        o => return Err(format!("variant {o}")),
                    };
                    let (x, b) = one(Some(tag))?;
                    return Ok((format!("Rs.S.GZW.{} {x}", v[1]), b));
                }
                if v.len() == 2 {
                    if let Some(vs) = self.reg.enums.get(&v[0]) {
                        if vs.iter().any(|(n, payload)| n == &v[1] && *payload) {
                            let (x, b) = one(None)?;
                            return Ok((format!("Gen.{}.{} {x}", v[0], v[1]), b));
                        }
                    }
                }
                Err(format!("pattern {}", v.join("::")))
            }
            _ => Err("pattern".into()),
        }
    }

    /// head constructor of a pattern (for the guard rule)
    fn pat_head(p: &Pat) -> Option<String> {
        match p {
            Pat::TupleStruct(ts) => Some(segs(&ts.path).join("::")),
            Pat::Path(pp) => Some(segs(&pp.path).join("::")),
            Pat::Ident(id) if id.ident == "None" => Some("None".into()),
            _ => None,
        }
    }

    /// a statement; `true` when it certainly leaves the function
    fn stmt(&mut self, s: &Stmt) -> R<bool> {
        match s {
            Stmt::Local(l) => {
                if !cfg_on(&l.attrs) {
                    return Ok(false);
                }
                let name = match &l.pat {
                    Pat::Ident(id) if id.subpat.is_none() && id.by_ref.is_none() && id.mutability.is_none() => id.ident.to_string(),
                    _ => return Err("let pattern".into()),
                };
                let init = match &l.init {
                    Some(i) if i.diverge.is_none() => &*i.expr,
                    _ => return Err("let without a value".into()),
                };
                match self.val(init)? {
                    Val::Atom(a) => {
                        if let Some(t) = self.tags.get(&a).cloned() {
                            self.tags.insert(name.clone(), t);
                        }
                        self.emit(format!("let {name} := {a}"));
                        Ok(false)
                    }
                    Val::Diverges => Ok(true),
                }
            }
            Stmt::Expr(e, _) => {
                if !cfg_on(expr_attrs(e)) {
                    return Ok(false);
                }
                self.stmt_expr(e)
            }
            _ => Err("statement".into()),
        }
    }

    fn stmts(&mut self, b: &Block) -> R<bool> {
        for s in &b.stmts {
            if self.stmt(s)? {
                return Ok(true);
            }
        }
        Ok(false)
    }

    /// an indented statement block; never empty
    fn branch(&mut self, f: impl FnOnce(&mut Self) -> R<bool>) -> R<bool> {
        let saved = self.tags.clone();
        self.indent += 1;
        let mark = self.lines.len();
        let r = f(self);
        if self.lines.len() == mark {
            self.emit("pure ()".into());
        }
        self.indent -= 1;
        self.tags = saved;
        r
    }

    fn stmt_expr(&mut self, e: &Expr) -> R<bool> {
        self.need_monad("statement")?;
        match e {
            Expr::Return(r) => {
                let inner = r.expr.as_ref().ok_or("return without a value")?;
                self.ret(inner)?;
                Ok(true)
            }
            Expr::Assign(a) => {
                let is_self = matches!(&*a.left, Expr::Unary(u) if matches!(u.op, UnOp::Deref(_)) && matches!(&*u.expr, Expr::Path(p) if p.path.is_ident("self")));
                if !is_self {
                    return Err("assignment to something other than `*self`".into());
                }
                match self.val(&a.right)? {
                    Val::Atom(v) => {
                        self.emit(format!("self := {v}"));
                        Ok(false)
                    }
                    Val::Diverges => Ok(true),
                }
            }
            Expr::If(i) => {
                if matches!(&*i.cond, Expr::Let(_)) {
                    return Err("if let".into());
                }
                let c = self.atom(&i.cond)?;
                self.emit(format!("if {c} then"));
                let t = self.branch(|s| s.stmts(&i.then_branch))?;
                match &i.else_branch {
                    None => Ok(false),
                    Some((_, eb)) => {
                        self.emit("else".into());
                        let eb = (**eb).clone();
                        let e2 = self.branch(|s| match &eb {
                            Expr::Block(b) => s.stmts(&b.block),
                            o => s.stmt_expr(o),
                        })?;
                        Ok(t && e2)
                    }
                }
            }
            Expr::Block(b) => self.stmts(&b.block),
            Expr::Match(m) => {
                let arms: Vec<&Arm> = m.arms.iter().filter(|x| cfg_on(&x.attrs)).collect();
                let s = self.atom(&m.expr)?;
                self.emit(format!("match {s} with"));
                let mut all_leave = true;
                // constructors fully covered so far (a guarded arm covers its constructor: its `else` is the wildcard body)
                let mut covered: Vec<String> = vec![];
                for (k, arm) in arms.iter().enumerate() {
                    if matches!(&arm.pat, Pat::Wild(_)) && covered.len() == 2 && covered.contains(&"Some".to_string()) && covered.contains(&"None".to_string()) {
                        // `Some(_)` and `None` are covered: Lean rejects a redundant alternative
                        continue;
                    }
                    if let Some(h) = Self::pat_head(&arm.pat) {
                        let irrefutable_payload = match &arm.pat {
                            Pat::TupleStruct(ts) => ts.elems.iter().all(|e| matches!(e, Pat::Ident(id) if id.subpat.is_none()) || matches!(e, Pat::Wild(_) | Pat::Rest(_))),
                            _ => true,
                        };
                        if irrefutable_payload && !covered.contains(&h) {
                            covered.push(h);
                        }
                    }
                    let (p, binds) = self.pat(&arm.pat, None)?;
                    self.emit(format!("| {p} =>"));
                    let body = (*arm.body).clone();
                    let run = |s: &mut Self, body: &Expr| -> R<bool> {
                        match body {
                            Expr::Block(b) => s.stmts(&b.block),
                            o => s.stmt_expr(o),
                        }
                    };
                    let leaves = if let Some((_, g)) = &arm.guard {
                        // `P if g => A`: a failed guard goes on with the later arms; accepted when the only later
                        // arm that can match a value of P's constructor is a wildcard arm
                        let head = Self::pat_head(&arm.pat).ok_or("guard on a pattern without a constructor")?;
                        let mut wild: Option<Expr> = None;
                        for later in &arms[k + 1..] {
                            if later.guard.is_some() {
                                return Err("several guarded arms".into());
                            }
                            if matches!(&later.pat, Pat::Wild(_)) {
                                wild = Some((*later.body).clone());
                                break;
                            }
                            match Self::pat_head(&later.pat) {
                                Some(h) if h != head => {}
                                _ => return Err("a later arm may match the guarded pattern".into()),
                            }
                        }
                        let wild = wild.ok_or("guarded arm without a later wildcard arm")?;
                        let g = (**g).clone();
                        self.branch(|s| {
                            for (n, t) in &binds {
                                s.tags.insert(n.clone(), t.clone());
                            }
                            let c = s.atom(&g)?;
                            s.emit(format!("if {c} then"));
                            let a = s.branch(|s2| run(s2, &body))?;
                            s.emit("else".into());
                            let b = s.branch(|s2| run(s2, &wild))?;
                            Ok(a && b)
                        })?
                    } else {
                        self.branch(|s| {
                            for (n, t) in &binds {
                                s.tags.insert(n.clone(), t.clone());
                            }
                            run(s, &body)
                        })?
                    };
                    all_leave &= leaves;
                }
                Ok(all_leave)
            }
            _ => Err(format!("statement (line {})", e.span().start().line)),
        }
    }
}

fn find_fn<'a>(all: &[&'a Item], name: &str) -> Option<(Option<String>, &'a Signature, &'a Block, proc_macro2::TokenStream, usize, usize)> {
    if let Some((ty, m)) = name.split_once("::") {
        for it in all {
            if let Item::Impl(im) = it {
                if im.trait_.is_some() || !cfg_on(&im.attrs) {
                    continue;
                }
                if let Type::Path(p) = &*im.self_ty {
                    if path_last(&p.path) != ty {
                        continue;
                    }
                    for ii in &im.items {
                        if let ImplItem::Fn(f) = ii {
                            if f.sig.ident == m && cfg_on(&f.attrs) {
                                return Some((Some(ty.to_string()), &f.sig, &f.block, quote::quote!(#f), f.span().start().line, f.span().end().line));
                            }
                        }
                    }
                }
            }
        }
        None
    } else {
        for it in all {
            if let Item::Fn(f) = it {
                if f.sig.ident == name && cfg_on(&f.attrs) {
                    return Some((None, &f.sig, &f.block, quote::quote!(#f), f.span().start().line, f.span().end().line));
                }
            }
        }
        None
    }
}

pub fn translate_gfn(reg: &Registry, failed: &HashSet<String>, all: &[&Item], name: &str) -> R<(String, String, usize, usize)> {
    let (self_ty, sig, block, toks, l0, l1) = find_fn(all, name).ok_or("not found")?;
    if let Some(t) = &self_ty {
        if t != GZW {
            return Err("gfn of a type other than GenericZipWriter".into());
        }
    }
    let mut g = G { reg, failed, monadic: false, lines: vec![], indent: 1, n: 0, tags: HashMap::new(), tparams: HashSet::new(), self_ty: self_ty.clone(), arm_tags: vec![], in_arm: 0, bad: None };
    // generic parameters: `T: Ord + Copy` only
    let mut binders: Vec<String> = vec![];
    for p in &sig.generics.params {
        match p {
            GenericParam::Type(tp) => {
                let bs: Vec<String> = tp.bounds.iter().map(|b| quote::quote!(#b).to_string().replace(' ', "")).collect();
                let mut sorted = bs.clone();
                sorted.sort();
                if sorted != ["Copy", "Ord"] {
                    return Err(format!("type parameter bounds {}", bs.join("+")));
                }
                let n = tp.ident.to_string();
                binders.push(format!("{{{n} : Type}} [LE {n}] [DecidableLE {n}]"));
                g.tparams.insert(n);
            }
            _ => return Err("generic parameter".into()),
        }
    }
    let mut recv_mut: Option<bool> = None;
    for a in &sig.inputs {
        match a {
            FnArg::Receiver(r) => {
                if r.reference.is_none() {
                    return Err("method that takes `self` by value".into());
                }
                recv_mut = Some(r.mutability.is_some());
            }
            FnArg::Typed(t) => {
                let n = match &*t.pat {
                    Pat::Ident(id) if id.mutability.is_none() => id.ident.to_string(),
                    _ => return Err("parameter pattern".into()),
                };
                binders.push(format!("({n} : {})", g.ty(&t.ty)?));
            }
        }
    }
    let lean_name = match &self_ty {
        Some(t) => format!("Gen.{t}.{}", sig.ident),
        None => format!("Gen.{}", sig.ident),
    };
    let h = tokens_hash(&toks);
    let mut s = String::new();
    if recv_mut == Some(true) {
        // state-passing method
        let ret = match &sig.output {
            ReturnType::Type(_, t) => match &**t {
                Type::Path(p) if path_last(&p.path) == "ZipResult" => {
                    let seg = p.path.segments.last().unwrap();
                    match &seg.arguments {
                        PathArguments::AngleBracketed(a) => match a.args.first() {
                            Some(GenericArgument::Type(t0)) => g.ty(t0)?,
                            _ => return Err("ZipResult without a type argument".into()),
                        },
                        _ => return Err("ZipResult without a type argument".into()),
                    }
                }
                _ => return Err("`&mut self` method that does not return ZipResult".into()),
            },
            _ => return Err("`&mut self` method that does not return ZipResult".into()),
        };
        g.monadic = true;
        g.tags.insert("self".into(), GZW.into());
        g.emit("let mut self := self".into());
        let n = block.stmts.len();
        let mut left = false;
        for (i, st) in block.stmts.iter().enumerate() {
            if i + 1 == n {
                if let Stmt::Expr(e, None) = st {
                    g.ret(e)?;
                    left = true;
                    break;
                }
            }
            if g.stmt(st)? {
                return Err("statements after a certain `return`".into());
            }
        }
        if !left {
            return Err("method body without a final expression".into());
        }
        writeln!(s, "def {lean_name} (ext : Rs.S.Ext) (self : Rs.S.GZW) {} : Rs.S Rs.S.GZW ({ret} × Rs.S.GZW) := do", binders.join(" ")).unwrap();
        for l in &g.lines {
            writeln!(s, "{l}").unwrap();
        }
    } else {
        let ret = match &sig.output {
            ReturnType::Type(_, t) => g.ty(t)?,
            _ => return Err("pure function without a result".into()),
        };
        if recv_mut.is_some() {
            binders.insert(0, "(self : Rs.S.GZW)".into());
            g.tags.insert("self".into(), GZW.into());
        }
        // `let`s, then the value
        let mut lets = vec![];
        let n = block.stmts.len();
        let mut value: Option<String> = None;
        for (i, st) in block.stmts.iter().enumerate() {
            match st {
                Stmt::Local(l) if i + 1 < n => {
                    let name = match &l.pat {
                        Pat::Ident(id) if id.subpat.is_none() && id.mutability.is_none() => id.ident.to_string(),
                        _ => return Err("let pattern".into()),
                    };
                    let init = match &l.init {
                        Some(i) if i.diverge.is_none() => &*i.expr,
                        _ => return Err("let without a value".into()),
                    };
                    let v = g.atom(init)?;
                    lets.push(format!("  let {name} := {v}"));
                }
                Stmt::Expr(e, None) if i + 1 == n => value = Some(g.atom(e)?),
                _ => return Err("statement in a pure function".into()),
            }
        }
        if !g.lines.is_empty() {
            return Err("effects in a pure function".into());
        }
        let value = value.ok_or("pure function without a final expression")?;
        writeln!(s, "def {lean_name} {} : {ret} :=", binders.join(" ")).unwrap();
        for l in lets {
            writeln!(s, "{l}").unwrap();
        }
        writeln!(s, "  {value}").unwrap();
    }
    if let Some(b) = g.bad {
        return Err(b);
    }
    Ok((s, h, l0, l1))
}
