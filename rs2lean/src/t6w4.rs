//! Tier T6, helper t6w4: RAW COPY (`ZipWriter::raw_copy_file_rename` / `raw_copy_file`) - what the
//! STATE-MACHINE mode (`t6w.rs`) needs beyond the writer's own vocabulary.  Lean side: `Basic/RsC.lean`.
//!
//!   item kind `zacc Type::method`   an accessor of `impl ZipFile` (src/read.rs): a `&self` method whose body is
//!        the single expression `self.data.FIELD` / `&self.data.FIELD` / `self.data.METHOD()` (`METHOD` a
//!        translated pure method of `ZipFileData`)  →
//!            def Gen.ZipFileAcc.method (self : Rs.C.ZipFile Gen.ZipFileData) : T := self.data.FIELD
//!            def Gen.ZipFileAcc.method (self : …) : Option T := Gen.ZipFileData.METHOD self.data     (panic monad)
//!   item kind `bfn Type::method`    a by-value builder `fn m(mut self, x: T) -> Type { self.FIELD = x; self }`  →
//!            def Gen.TypeB.m (self : Gen.Type) (x : T) : Gen.Type := { self with FIELD := x }   (namespace `TypeB`: a builder usually has the name of the field it sets)
//!        and `fn default() -> Self { Self { FIELD: v, … } }` (fields under `#[cfg]` resolved for the default
//!        features; values: enum variants, `None`, `true` / `false`, and the wall clock
//!        `OffsetDateTime::now_utc().try_into().unwrap_or_default()`, which is the NAMED PARAMETER `now`)  →
//!            def Gen.TypeB.default (now : Gen.DateTime) : Gen.Type := { … }
//!
//! In the S mode (hooks called from `t6w.rs`):
//!   * the parameter type `ZipFile` is `(Rs.C.ZipFile Gen.ZipFileData)`;
//!   * `file.acc()` with `acc` a `zacc` item is `(Gen.ZipFileAcc.acc file)` (bound through `Rs.S.lift` when
//!     the accessor lives in the panic monad);
//!   * `Type::default()` / `v.builder(x)` with `bfn` items are `(Gen.TypeB.default now)` / `(Gen.TypeB.builder v x)`;
//!     a method that (transitively) uses `now` gets the parameter `(now : Gen.DateTime)` after `ext`;
//!   * `io::copy(file.get_raw_reader(), self)?` is `Rs.C.io_copy (Gen.T.write ext) self (Rs.C.get_raw_reader file) 0`
//!     (std's generic copy loop over the object's own translated `write`);
//!   * `s.to_owned()` on a `&str` is the same bytes.
use super::*;
use std::sync::Mutex;

/// `Type::method` → (Lean type of the value, lives in the panic monad)
static ZACC: Mutex<Vec<(String, String, bool)>> = Mutex::new(Vec::new());
/// `Type::method` → (Lean type of the value, takes `now`)
static BFN: Mutex<Vec<(String, String, bool)>> = Mutex::new(Vec::new());
/// S-mode methods that take the parameter `now`
static NOW: Mutex<Vec<String>> = Mutex::new(Vec::new());

pub const ZIPFILE_TY: &str = "(Rs.C.ZipFile Gen.ZipFileData)";

fn zacc_of(ty: &str, m: &str) -> Option<(String, bool)> {
    let key = format!("{ty}::{m}");
    ZACC.lock().unwrap().iter().find(|x| x.0 == key).map(|x| (x.1.clone(), x.2))
}
fn bfn_of(ty: &str, m: &str) -> Option<(String, bool)> {
    let key = format!("{ty}::{m}");
    BFN.lock().unwrap().iter().find(|x| x.0 == key).map(|x| (x.1.clone(), x.2))
}
pub fn needs_now(name: &str) -> bool {
    NOW.lock().unwrap().iter().any(|n| n == name)
}
pub fn mark_now(name: &str) {
    NOW.lock().unwrap().push(name.to_string());
}

fn find_method<'a>(all: &[&'a Item], ty: &str, m: &str) -> Option<&'a ImplItemFn> {
    for it in all {
        if let Item::Impl(im) = it {
            if !cfg_on(&im.attrs) {
                continue;
            }
            if let Type::Path(p) = &*im.self_ty {
                if path_last(&p.path) != ty {
                    continue;
                }
                for ii in &im.items {
                    if let ImplItem::Fn(f) = ii {
                        if f.sig.ident == m && cfg_on(&f.attrs) {
                            return Some(f);
                        }
                    }
                }
            }
        }
    }
    None
}

fn ret_ty(tr: &Tr, sig: &Signature) -> R<String> {
    match &sig.output {
        ReturnType::Default => Err("no return type".into()),
        ReturnType::Type(_, t) => tr.ty(t),
    }
}

/// the single tail expression of a body
fn tail_expr(b: &Block) -> R<&Expr> {
    let ss: Vec<&Stmt> = b.stmts.iter().filter(|s| match s {
        Stmt::Expr(e, _) => cfg_on(expr_attrs(e)),
        Stmt::Local(l) => cfg_on(&l.attrs),
        _ => true,
    }).collect();
    if ss.len() != 1 {
        return Err("accessor body is not a single expression".into());
    }
    match ss[0] {
        Stmt::Expr(e, None) => Ok(e),
        _ => Err("accessor body is not a tail expression".into()),
    }
}

/// `self.data.FIELD` → FIELD
fn self_data_field(e: &Expr) -> Option<String> {
    let e = match e {
        Expr::Reference(r) if r.mutability.is_none() => &*r.expr,
        Expr::Paren(p) => &*p.expr,
        other => other,
    };
    if let Expr::Field(f) = e {
        if let (Expr::Field(g), Member::Named(n)) = (&*f.base, &f.member) {
            if let (Expr::Path(p), Member::Named(d)) = (&*g.base, &g.member) {
                if p.path.is_ident("self") && d == "data" {
                    return Some(n.to_string());
                }
            }
        }
    }
    None
}

fn is_self_data(e: &Expr) -> bool {
    if let Expr::Field(g) = e {
        if let (Expr::Path(p), Member::Named(d)) = (&*g.base, &g.member) {
            return p.path.is_ident("self") && d == "data";
        }
    }
    false
}

fn zacc_body(reg: &Registry, failed: &HashSet<String>, f: &ImplItemFn, ret: &str) -> R<(String, String, bool)> {
    let recv_ok = f.sig.inputs.len() == 1 && matches!(f.sig.inputs.first(), Some(FnArg::Receiver(r)) if r.reference.is_some() && r.mutability.is_none());
    if !recv_ok {
        return Err("accessor that is not a `&self` method without arguments".into());
    }
    let e = tail_expr(&f.block)?;
    if let Some(fld) = self_data_field(e) {
        return Ok((format!("self.data.{fld}"), ret.to_string(), false));
    }
    if let Expr::MethodCall(m) = e {
        if m.args.is_empty() && is_self_data(&m.receiver) {
            let name = m.method.to_string();
            let key = format!("ZipFileData::{name}");
            if let Some(mi) = reg.methods.get(&key) {
                if mi.fi.mode == Mode::Pure && mi.has_self {
                    if failed.contains(&key) {
                        return Err(format!("calls the untranslated {key}"));
                    }
                    return Ok((format!("Gen.ZipFileData.{name} self.data"), ret.to_string(), true));
                }
            }
            return Err(format!("self.data.{name}() is not a translated pure method"));
        }
    }
    Err("accessor body outside the subset".into())
}

pub fn register_zacc(reg: &Registry, all: &[&Item], name: &str) {
    let Some((ty, m)) = name.split_once("::") else { return };
    let Some(f) = find_method(all, ty, m) else { return };
    let no_failed: HashSet<String> = HashSet::new();
    let tr = Tr::new(reg, &no_failed, Some(ty.to_string()), 0);
    let Ok(ret) = ret_ty(&tr, &f.sig) else { return };
    if let Ok((_, t, monadic)) = zacc_body(reg, &no_failed, f, &ret) {
        ZACC.lock().unwrap().push((name.to_string(), t, monadic));
    }
}

pub fn translate_zacc(reg: &Registry, failed: &HashSet<String>, all: &[&Item], name: &str) -> R<(String, String, usize, usize)> {
    let (ty, m) = name.split_once("::").ok_or("zacc needs Type::method")?;
    if ty != "ZipFile" {
        return Err("zacc items are accessors of ZipFile".into());
    }
    let f = find_method(all, ty, m).ok_or("not found")?;
    let tr = Tr::new(reg, failed, Some(ty.to_string()), 0);
    let ret = ret_ty(&tr, &f.sig)?;
    let (body, t, monadic) = zacc_body(reg, failed, f, &ret)?;
    let lt = if monadic { format!("Option {t}") } else { t };
    let s = format!("def Gen.ZipFileAcc.{m} (self : {ZIPFILE_TY}) : {lt} :=\n  {body}\n");
    let h = tokens_hash(&quote::quote!(#f));
    Ok((s, h, f.span().start().line, f.span().end().line))
}

/// is `e` the wall clock `OffsetDateTime::now_utc().try_into().unwrap_or_default()`?
fn is_now(e: &Expr) -> bool {
    if let Expr::MethodCall(u) = e {
        if u.method == "unwrap_or_default" && u.args.is_empty() {
            if let Expr::MethodCall(t) = &*u.receiver {
                if t.method == "try_into" && t.args.is_empty() {
                    if let Expr::Call(c) = &*t.receiver {
                        if let Expr::Path(p) = &*c.func {
                            let v: Vec<String> = p.path.segments.iter().map(|s| s.ident.to_string()).collect();
                            return c.args.is_empty() && v.len() >= 2 && v[v.len() - 2] == "OffsetDateTime" && v[v.len() - 1] == "now_utc";
                        }
                    }
                }
            }
        }
    }
    false
}

/// (definition text, Lean type, takes `now`)
fn bfn_body(reg: &Registry, ty: &str, f: &ImplItemFn) -> R<(String, bool)> {
    let no_failed: HashSet<String> = HashSet::new();
    let tr = Tr::new(reg, &no_failed, Some(ty.to_string()), 0);
    let m = f.sig.ident.to_string();
    let ret = ret_ty(&tr, &f.sig)?;
    if ret != format!("Gen.{ty}") {
        return Err("builder that does not return its own type".into());
    }
    if !reg.structs.contains(ty) {
        return Err(format!("{ty} is not a translated structure"));
    }
    let stmts: Vec<&Stmt> = f.block.stmts.iter().filter(|s| match s {
        Stmt::Expr(e, _) => cfg_on(expr_attrs(e)),
        Stmt::Local(l) => cfg_on(&l.attrs),
        _ => true,
    }).collect();
    // fn default() -> Self { Self { … } }
    if f.sig.inputs.is_empty() {
        if m != "default" || stmts.len() != 1 {
            return Err("associated function other than `default`".into());
        }
        let st = match stmts[0] {
            Stmt::Expr(Expr::Struct(st), None) => st,
            _ => return Err("`default` body is not a structure literal".into()),
        };
        let n = path_last(&st.path);
        if (n != "Self" && n != ty) || st.rest.is_some() {
            return Err("`default` body is not a literal of its own type".into());
        }
        let mut parts = vec![];
        let mut now = false;
        for fv in &st.fields {
            if !cfg_on(&fv.attrs) {
                continue;
            }
            let fname = match &fv.member { Member::Named(n) => n.to_string(), _ => return Err("tuple field".into()) };
            let v = match &fv.expr {
                e if is_now(e) => {
                    now = true;
                    "now".to_string()
                }
                Expr::Path(p) if p.path.is_ident("None") => "none".to_string(),
                Expr::Lit(ExprLit { lit: Lit::Bool(b), .. }) => (if b.value { "true" } else { "false" }).to_string(),
                Expr::Path(p) if p.path.segments.len() == 2 => {
                    let en = p.path.segments[0].ident.to_string();
                    let vn = p.path.segments[1].ident.to_string();
                    match reg.enums.get(&en) {
                        Some(vs) if vs.iter().any(|(v, payload)| *v == vn && !*payload) => format!("Gen.{en}.{vn}"),
                        _ => return Err(format!("default value {en}::{vn}")),
                    }
                }
                _ => return Err(format!("default value of field {fname} outside the subset")),
            };
            parts.push(format!("{fname} := {v}"));
        }
        let params = if now { " (now : Gen.DateTime)" } else { "" };
        return Ok((format!("def Gen.{ty}B.default{params} : Gen.{ty} :=\n  {{ {} }}\n", parts.join(", ")), now));
    }
    // fn m(mut self, x: T) -> Type { self.FIELD = x; self }
    if f.sig.inputs.len() != 2 {
        return Err("builder with other than one argument".into());
    }
    match &f.sig.inputs[0] {
        FnArg::Receiver(r) if r.reference.is_none() => {}
        _ => return Err("builder that does not take `self` by value".into()),
    }
    let (pn, pt) = match &f.sig.inputs[1] {
        FnArg::Typed(t) => match &*t.pat {
            Pat::Ident(id) => (id.ident.to_string(), tr.ty(&t.ty)?),
            _ => return Err("parameter pattern".into()),
        },
        _ => return Err("parameter".into()),
    };
    if stmts.len() != 2 {
        return Err("builder body is not `self.FIELD = x; self`".into());
    }
    let fld = match stmts[0] {
        Stmt::Expr(Expr::Assign(a), Some(_)) => {
            let lhs_ok = match &*a.left {
                Expr::Field(fe) => match (&*fe.base, &fe.member) {
                    (Expr::Path(p), Member::Named(n)) if p.path.is_ident("self") => Some(n.to_string()),
                    _ => None,
                },
                _ => None,
            };
            let rhs_ok = matches!(&*a.right, Expr::Path(p) if p.path.is_ident(&pn));
            match (lhs_ok, rhs_ok) {
                (Some(n), true) => n,
                _ => return Err("builder body is not `self.FIELD = x; self`".into()),
            }
        }
        _ => return Err("builder body is not `self.FIELD = x; self`".into()),
    };
    match stmts[1] {
        Stmt::Expr(Expr::Path(p), None) if p.path.is_ident("self") => {}
        _ => return Err("builder does not return `self`".into()),
    }
    Ok((format!("def Gen.{ty}B.{m} (self : Gen.{ty}) ({pn} : {pt}) : Gen.{ty} :=\n  {{ self with {fld} := {pn} }}\n"), false))
}

pub fn register_bfn(reg: &Registry, all: &[&Item], name: &str) {
    let Some((ty, m)) = name.split_once("::") else { return };
    let Some(f) = find_method(all, ty, m) else { return };
    if let Ok((_, now)) = bfn_body(reg, ty, f) {
        BFN.lock().unwrap().push((name.to_string(), format!("Gen.{ty}"), now));
    }
}

pub fn translate_bfn(reg: &Registry, _failed: &HashSet<String>, all: &[&Item], name: &str) -> R<(String, String, usize, usize)> {
    let (ty, m) = name.split_once("::").ok_or("bfn needs Type::method")?;
    let f = find_method(all, ty, m).ok_or("not found")?;
    let (s, _) = bfn_body(reg, ty, f)?;
    let h = tokens_hash(&quote::quote!(#f));
    Ok((s, h, f.span().start().line, f.span().end().line))
}

fn path_segs(e: &Expr) -> Vec<String> {
    if let Expr::Path(p) = e {
        return p.path.segments.iter().map(|s| s.ident.to_string()).collect();
    }
    vec![]
}

impl<'a> Tr<'a> {
    /// S-mode type hook
    pub fn c_ty(&self, name: &str) -> Option<R<String>> {
        if name == "ZipFile" {
            return Some(Ok(ZIPFILE_TY.into()));
        }
        None
    }

    /// S-mode `type_of` hook
    pub fn c_type_of(&self, e: &Expr) -> Option<String> {
        match e {
            Expr::MethodCall(m) => {
                let name = m.method.to_string();
                let rt = self.type_of(&m.receiver)?;
                if rt == ZIPFILE_TY {
                    if name == "get_raw_reader" {
                        return Some("(List Rs.RdRes)".into());
                    }
                    return zacc_of("ZipFile", &name).map(|x| x.0);
                }
                if let Some(st) = rt.strip_prefix("Gen.") {
                    if let Some((t, _)) = bfn_of(st, &name) {
                        return Some(t);
                    }
                }
                if name == "to_owned" && m.args.is_empty() && rt == "Bytes" {
                    return Some("Bytes".into());
                }
                None
            }
            Expr::Call(c) => {
                let v = path_segs(&c.func);
                if v.len() == 2 && v[1] == "default" && c.args.is_empty() {
                    return bfn_of(&v[0], "default").map(|x| x.0);
                }
                None
            }
            _ => None,
        }
    }

    /// S-mode expression hook
    pub fn c_expr(&mut self, e: &Expr) -> R<Option<String>> {
        match e {
            Expr::MethodCall(m) => {
                let name = m.method.to_string();
                let Some(rt) = self.type_of(&m.receiver) else { return Ok(None) };
                if rt == ZIPFILE_TY {
                    if name == "get_raw_reader" && m.args.is_empty() {
                        let r = self.expr(&m.receiver)?;
                        return Ok(Some(format!("(Rs.C.get_raw_reader {r})")));
                    }
                    if let Some((_, monadic)) = zacc_of("ZipFile", &name) {
                        if !m.args.is_empty() {
                            return Err(format!("ZipFile::{name} with arguments"));
                        }
                        if self.failed.contains(&format!("ZipFile::{name}")) {
                            return Err(format!("calls the untranslated ZipFile::{name}"));
                        }
                        let r = self.expr(&m.receiver)?;
                        if monadic {
                            return Ok(Some(self.bind_m(format!("Gen.ZipFileAcc.{name} {r}"))));
                        }
                        return Ok(Some(format!("(Gen.ZipFileAcc.{name} {r})")));
                    }
                    return Err(format!("ZipFile::{name} is not a translated accessor"));
                }
                if let Some(st) = rt.strip_prefix("Gen.").map(|s| s.to_string()) {
                    if let Some((_, now)) = bfn_of(&st, &name) {
                        if m.args.len() != 1 || now {
                            return Err(format!("{st}::{name}: builder arity"));
                        }
                        if self.failed.contains(&format!("{st}::{name}")) {
                            return Err(format!("calls the untranslated {st}::{name}"));
                        }
                        let r = self.expr(&m.receiver)?;
                        let a = self.expr(&m.args[0])?;
                        return Ok(Some(format!("(Gen.{st}B.{name} {r} {a})")));
                    }
                }
                if name == "to_owned" && m.args.is_empty() && rt == "Bytes" {
                    return Ok(Some(self.expr(&m.receiver)?));
                }
                Ok(None)
            }
            Expr::Call(c) => {
                let v = path_segs(&c.func);
                if v.len() == 2 && v[1] == "default" && c.args.is_empty() {
                    if let Some((_, now)) = bfn_of(&v[0], "default") {
                        if self.failed.contains(&format!("{}::default", v[0])) {
                            return Err(format!("calls the untranslated {}::default", v[0]));
                        }
                        if now {
                            self.s.needs_now = true;
                            return Ok(Some(format!("(Gen.{}B.default now)", v[0])));
                        }
                        return Ok(Some(format!("Gen.{}B.default", v[0])));
                    }
                }
                Ok(None)
            }
            _ => Ok(None),
        }
    }

    /// S-mode hook for `inner?`: `io::copy(READER, self)?`
    pub fn c_try(&mut self, inner: &Expr) -> R<Option<String>> {
        if let Expr::Call(c) = inner {
            let v = path_segs(&c.func);
            if v.len() == 2 && v[0] == "io" && v[1] == "copy" && c.args.len() == 2 {
                if !matches!(&c.args[1], Expr::Path(p) if p.path.is_ident("self")) {
                    return Err("io::copy into something that is not `self`".into());
                }
                if self.type_of(&c.args[0]).as_deref() != Some("(List Rs.RdRes)") {
                    return Err("io::copy from something that is not a raw reader".into());
                }
                let st = self.self_ty.clone().unwrap_or_default();
                match self.reg.methods.get(&format!("{st}::write")) {
                    Some(mi) if mi.fi.mode == Mode::S => {}
                    _ => return Err(format!("io::copy: {st}::write is not translated")),
                }
                if self.failed.contains(&format!("{st}::write")) {
                    return Err(format!("calls the untranslated {st}::write"));
                }
                let r = self.expr(&c.args[0])?;
                let t1 = self.fresh();
                let t2 = self.fresh();
                self.emit(format!("let ({t1}, {t2}) ← Rs.C.io_copy (Gen.{st}.write ext) self {r} 0"));
                self.emit(format!("self := {t2}"));
                return Ok(Some(t1));
            }
        }
        Ok(None)
    }
}
